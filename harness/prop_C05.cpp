// C05 - the expert driver solves op(A) X = B and mutates A, B only as documented.
#include "expert.hpp"

namespace vf {

// kappa_inf-ish estimate of a dense matrix in long double (Gauss-Jordan with partial pivoting); returns +inf when singular
template <class W> static LD cond_estimate(const Dense<W> &A)
{
    int n = A.m; Dense<W> M = A, I(n, n);
    for (int i = 0; i < n; ++i) I(i, i) = W(1);
    LD an = 0; for (int i = 0; i < n; ++i) { LD s = 0; for (int j = 0; j < n; ++j) s += absm(A(i, j)); an = std::max(an, s); }
    for (int k = 0; k < n; ++k) {
        int p = k; for (int i = k + 1; i < n; ++i) if (absm(M(i, k)) > absm(M(p, k))) p = i;
        if (absm(M(p, k)) == 0) return std::numeric_limits<LD>::infinity();
        if (p != k) for (int j = 0; j < n; ++j) { std::swap(M(p, j), M(k, j)); std::swap(I(p, j), I(k, j)); }
        W d = M(k, k);
        for (int j = 0; j < n; ++j) { M(k, j) /= d; I(k, j) /= d; }
        for (int i = 0; i < n; ++i) if (i != k && M(i, k) != W(0)) { W f = M(i, k); for (int j = 0; j < n; ++j) { M(i, j) -= f * M(k, j); I(i, j) -= f * I(k, j); } }
    }
    LD in = 0; for (int i = 0; i < n; ++i) { LD s = 0; for (int j = 0; j < n; ++j) s += absm(I(i, j)); in = std::max(in, s); }
    return an * in;
}

template <class T> static void run_T(Choice &c, Ctx &cx)
{
    typedef typename Wide<T>::W W; typedef typename Tr<T>::R R;
    const bool cplx = Tr<T>::is_complex, single = sizeof(R) == 4;
    int n = gen_size(c, cx.tier);
    std::string family;
    auto pat = gen_pattern(c, n, n, PAT_NONSING, family);
    GMat G = gen_values(c, n, n, pat, cplx, single, family);
    Opts o = gen_opts(c, n, single, true, true);
    static const unsigned wn[] = {7, 3, 2, 1}; static const int nr[] = {1, 2, 3, 0};
    int nrhs = nr[c.weighted(wn)];
    int ldb = n + (int)c.below(3), ldx = n + (int)c.below(3);
    Expert<T> e; e.init(n, nrhs, ldb, ldx);
    e.S = to_comp<T>(G, o.nr, o.shuffle_rows ? &c : nullptr);
    e.B = gen_rhs<T>(c, n, nrhs, ldb, cplx);
    cx.hash = fnv1a(c.d, c.consumed(), 0xC05ULL ^ ((uint64_t)Tr<T>::letter << 32));
    if (cx.dump) {
        cx.d(fmt("gssvx n=%d nrhs=%d ldb=%d ldx=%d", n, nrhs, ldb, ldx)); cx.d(opts_str(o, true)); cx.d(gmat_str(G, cplx));
        for (int j = 0; j < nrhs; ++j) { std::string s = fmt("  b%d:", j); for (int i = 0; i < n; ++i) s += " " + w_str(widen<T>(e.B[(size_t)j * ldb + i])); cx.d(s); }
    }
    static const char *tn[] = {"NOTRANS", "TRANS", "CONJ"};
    cx.label(std::string("trans=") + tn[o.trans]); cx.label(o.nr ? "storage=NR" : "storage=NC"); cx.label(o.equil ? "Equil=YES" : "Equil=NO");
    cx.label(fmt("refine=%d", (int)o.refine)); cx.label("values=" + G.vkind);
    if (cx.is_known("F-SS") && maybe_exactly_singular(G)) { cx.exclude("F-SS"); cx.label("exactly-singular(excluded)"); return; }
    // Known finding F07: complex, row storage, Trans=CONJ solves A^T x = b instead of A^H x = b.
    bool f07_class = cplx && o.nr && o.trans == CONJ;
    if (f07_class && cx.is_known("F07")) { cx.exclude("F07"); o.trans = TRANS; cx.label("F07-class(remapped to TRANS)"); }

    Dense<W> A0 = dense_of(e.S);
    std::vector<T> val0 = e.S.val, B0 = e.B; std::vector<int_t> idx0 = e.S.idx, ptr0 = e.S.ptr;
    vf_case_begin(cx.fill(0xA5));
    apply_tuning(o.tune);
    apply_opts(o, e.so);
    if (o.colperm == MY_PERMC) e.perm_c = o.my_perm_c;
    // a quarter of the cases factor inside a generous caller workspace (base 0 or 4 mod 8): everything the driver does after the
    // factorization - solve, refinement, estimates, unscaling - must be indifferent to where the factors live
    std::vector<char> wsbuf;
    if (((cx.hash >> 9) & 3) == 0) { wsbuf.assign(((size_t)2 << 20) + 8, (char)0x5A); e.work = wsbuf.data() + (((cx.hash >> 11) & 1) ? 4 : 0); e.lwork = (int_t)2 << 20; cx.label("caller-workspace"); }
    e.bind();
    if (e.call()) { cx.fail("abort", fmt("gssvx: library called ABORT: %s", vf_abort_msg())); vf_purge(); return; }
    long long info = (long long)e.info;
    if (e.lwork > 0 && e.info > n + 1) { e.lu_live = false; e.teardown(); vf_purge(); cx.skip("the 2 MB caller workspace did not suffice (shortages are judged by C08)"); return; }
    if (info < 0 || info > n + 1 || (info == n + 1 && !o.condnum)) { e.lu_live = false; e.teardown(); vf_purge(); VF_FAIL(cx, "info", "valid call returned info=%lld (n=%d, ConditionNumber=%d)", info, n, (int)o.condnum); }
    auto bail = [&] { e.teardown(); vf_purge(); };
    if (!bytes_equal(e.S.idx, idx0) || !bytes_equal(e.S.ptr, ptr0)) { bail(); VF_FAIL(cx, "index-arrays-modified", "the caller's index/pointer arrays were modified"); }
    char eq = e.equed[0];
    if (!(eq == 'N' || eq == 'R' || eq == 'C' || eq == 'B')) { bail(); VF_FAIL(cx, "equed", "equed='%c' (0x%02x) is not one of N,R,C,B", eq, (unsigned char)eq); }
    if (!o.equil && eq != 'N') { bail(); VF_FAIL(cx, "equed", "Equil=NO but equed='%c'", eq); }
    cx.label(std::string("equed=") + eq);
    if (info >= 1 && info <= n) {   // numerically singular: C04's business; here only the leak / mutation clauses
        cx.label("singular-return");
        e.teardown();
        ledger_clean(cx, "after singular return of gssvx");
        return;
    }
    // A on exit = diag(R) AA diag(C) restricted to equed
    LD uu = Consts<T>::u();
    bool rowequ = e.rowequ(), colequ = e.colequ();
    if (rowequ) for (int i = 0; i < n; ++i) if (!(e.Rs[i] > 0) || !std::isfinite((double)e.Rs[i])) { bail(); VF_FAIL(cx, "scale-factors", "equed='%c' but R[%d]=%g", eq, i, (double)e.Rs[i]); }
    if (colequ) for (int i = 0; i < n; ++i) if (!(e.Cs[i] > 0) || !std::isfinite((double)e.Cs[i])) { bail(); VF_FAIL(cx, "scale-factors", "equed='%c' but C[%d]=%g", eq, i, (double)e.Cs[i]); }
    {
        int outer = n;
        for (int k = 0; k < outer; ++k) for (int_t p = e.S.ptr[k]; p < e.S.ptr[k + 1]; ++p) {
            // storage is always "columns of AA": for NR the rows of A are the columns of AA
            int j = k, i = (int)e.S.idx[p];
            W expect = widen<T>(val0[p]);
            if (rowequ) expect *= (LD)e.Rs[i];
            if (colequ) expect *= (LD)e.Cs[j];
            W got = widen<T>(e.S.val[p]);
            if (eq == 'N') { if (std::memcmp(&e.S.val[p], &val0[p], sizeof(T)) != 0) { bail(); VF_FAIL(cx, "A-modified", "equed='N' but stored value %lld changed from %s to %s", (long long)p, w_str(widen<T>(val0[p])).c_str(), w_str(got).c_str()); } }
            else if (!(absm(got - expect) <= 4 * uu * absm(expect) + Consts<T>::safmin())) { bail(); VF_FAIL(cx, "A-scaling", "equed='%c': AA(%d,%d) is %s, expected r_i*a*c_j = %s", eq, i, j, w_str(got).c_str(), w_str(expect).c_str()); }
        }
    }
    // effective operation on AA
    bool notran_eff = o.nr ? (o.trans != NOTRANS) : (o.trans == NOTRANS);
    // B on exit: scaled by the one documented factor (a single multiplication), or untouched
    const std::vector<R> *bs = nullptr;
    if (nrhs > 0) { if (notran_eff && rowequ) bs = &e.Rs; else if (!notran_eff && colequ) bs = &e.Cs; }
    for (size_t q = 0; q < e.B.size(); ++q) {
        size_t i = q % (size_t)ldb, j = q / (size_t)ldb;
        T expect = B0[q];
        if (bs && (int)i < n && (int)j < nrhs) expect = B0[q] * (*bs)[i];
        if (std::memcmp(&expect, &e.B[q], sizeof(T)) != 0) { bail(); VF_FAIL(cx, "B-scaling", "B(%zu,%zu) on exit is %s; expected %s (input %s, equed='%c', factor %s)", i, j, w_str(widen<T>(e.B[q])).c_str(), w_str(widen<T>(expect)).c_str(), w_str(widen<T>(B0[q])).c_str(), eq, bs ? (notran_eff ? "R" : "C") : "none"); }
    }
    // X padding untouched
    for (int j = 0; j < nrhs; ++j) for (int i = n; i < ldx; ++i) { T s = sentinel_value<T>(); if (std::memcmp(&e.X[(size_t)j * ldx + i], &s, sizeof(T)) != 0) { bail(); VF_FAIL(cx, "padding", "padding row %d of X column %d overwritten", i, j); } }
    { T s = sentinel_value<T>(); if (std::memcmp(&e.X.back(), &s, sizeof(T)) != 0) { bail(); VF_FAIL(cx, "padding", "element past the end of X overwritten"); } }
    // factors vs the equilibrated matrix
    Dense<W> AAeq = factored_matrix(e);
    LUDecoded<T> dec;
    bool ok = check_lu<T>(cx, AAeq, e.perm_r.data(), e.perm_c.data(), &e.L, &e.U, o.u, true, false, dec);
    if (ok && !dec.degenerate && nrhs > 0) {
        // op(A0) in terms of the caller's A
        Dense<W> Op = o.trans == NOTRANS ? A0 : transpose(A0, o.trans == CONJ);
        // bound matrix for the effective operation on the factored matrix
        Dense<LD> F = permute_back(dec.E, e.perm_r.data(), e.perm_c.data(), n, !notran_eff);
        std::vector<LD> ydiv(n, 1), rdiv(n, 1);
        for (int i = 0; i < n; ++i) {
            if (notran_eff) { if (colequ) ydiv[i] = e.Cs[i]; if (rowequ) rdiv[i] = e.Rs[i]; }
            else { if (rowequ) ydiv[i] = e.Rs[i]; if (colequ) rdiv[i] = e.Cs[i]; }
        }
        bool judge = true; LD cm = 1;
        if (o.refine != NOREFINE) {
            cm = 2;
            LD kappa = cond_estimate(AAeq);
            if (!(kappa * n * uu < 0.05L)) { judge = false; cx.label("refine+illcond(not judged)"); }
        }
        if (judge) ok = check_residual<T>(cx, Op, F, e.X.data(), ldx, B0.data(), ldb, nrhs, ydiv.data(), rdiv.data(), cm, "residual", o.refine != NOREFINE);
    }
    int steps = e.stat.RefineSteps;
    e.teardown();
    if (!ok) { vf_purge(); return; }
    if (!ledger_clean(cx, "after destroying L, U and the views")) return;
    if (dec.degenerate) { cx.skip("overflow-degenerate"); return; }
    if (cx.skipped) return;
    if (info == n + 1) cx.label("info=n+1");
    if (steps > 0) cx.label("refine-steps>0");
    cx.nontrivial = nrhs >= 1 && n >= 2 && (eq != 'N' || o.trans != NOTRANS || o.nr);
}

static void run(char type, Choice &c, Ctx &cx)
{
    switch (type) {
    case 's': run_T<float>(c, cx); break;
    case 'd': run_T<double>(c, cx); break;
    case 'c': run_T<cfloat>(c, cx); break;
    default: run_T<cdouble>(c, cx); break;
    }
}

const PropInfo vf_prop = {
    "C05",
    "structurally nonsingular square A (incl. rows/columns scaled by 2^k, graded), B with nrhs 0..3, ldb/ldx n..n+2, Trans x Equil x IterRefine x NC/NR x ColPerm x u x tuning "
    "through ?gssvx with Fact=DOFACT; oracle: equed in NRCB, index arrays bit-identical, stored A = r_i*a_ij*c_j per equed (bit-identical for N), B scaled by exactly the one documented factor, "
    "C02/C03 on the factors of the equilibrated matrix, |B-op(A)X| within the factor-derived componentwise bound mapped through the scalings, padding untouched, ledger clean; "
    "non-trivial = info in {0,n+1}, nrhs>=1, n>=2 and (equed != N or Trans != NOTRANS or row storage); distinct = hash of the consumed choice-stream prefix and type",
    run, "sdcz"};

}  // namespace vf
