// C13 - the reported backward error is the true backward error of the returned X.
#include "expert.hpp"

namespace vf {

template <class T> static void run_T(Choice &c, Ctx &cx)
{
    typedef typename Wide<T>::W W; typedef typename Tr<T>::R R;
    const bool cplx = Tr<T>::is_complex, single = sizeof(R) == 4;
    int n = gen_size(c, cx.tier);
    std::string family;
    auto pat = gen_pattern(c, n, n, PAT_NONSING, family);
    GMat G = gen_values(c, n, n, pat, cplx, single, family);
    // optionally worsen the conditioning: make two columns nearly dependent
    if (n >= 2 && c.chance(70)) {
        int t = (int)c.below((unsigned)n), a = (int)c.below((unsigned)n); if (a == t) a = (t + 1) % n;
        int k = 3 + (int)c.below(single ? 12u : 36u);
        std::vector<double> vr(n, 0), vi(n, 0); std::vector<char> st(n, 0);
        for (auto &e : G.col[a]) { vr[e.first] = e.second.re; vi[e.first] = e.second.im; st[e.first] = 1; }
        for (auto &e : G.col[t]) { vr[e.first] += std::ldexp(e.second.re, -k); vi[e.first] += std::ldexp(e.second.im, -k); st[e.first] = 1; }
        G.col[t].clear(); for (int i = 0; i < n; ++i) if (st[i]) G.col[t].push_back({i, Val{vr[i], vi[i]}});
        G.family += "+near-dependent";
    }
    Opts o = gen_opts(c, n, single, true, true);
    if (c.chance(150) && o.refine == NOREFINE) o.refine = SLU_DOUBLE;     // favour refinement
    int nrhs = 1 + (int)c.below(3);
    int ldb = n + (int)c.below(3), ldx = n + (int)c.below(3);
    Expert<T> e; e.init(n, nrhs, ldb, ldx);
    e.S = to_comp<T>(G, o.nr, o.shuffle_rows ? &c : nullptr);
    e.B = gen_rhs<T>(c, n, nrhs, ldb, cplx);
    cx.hash = fnv1a(c.d, c.consumed(), 0xC13ULL ^ ((uint64_t)Tr<T>::letter << 32));
    if (cx.dump) {
        cx.d(fmt("gssvx n=%d nrhs=%d ldb=%d ldx=%d", n, nrhs, ldb, ldx)); cx.d(opts_str(o, true)); cx.d(gmat_str(G, cplx));
        for (int j = 0; j < nrhs; ++j) { std::string s = fmt("  b%d:", j); for (int i = 0; i < n; ++i) s += " " + w_str(widen<T>(e.B[(size_t)j * ldb + i])); cx.d(s); }
    }
    static const char *tn[] = {"NOTRANS", "TRANS", "CONJ"};
    cx.label(std::string("trans=") + tn[o.trans]); cx.label(o.refine == NOREFINE ? "refine=off" : "refine=on");
    if (cx.is_known("F-SS") && maybe_exactly_singular(G)) { cx.exclude("F-SS"); cx.label("exactly-singular(excluded)"); return; }
    if (cplx && o.nr && o.trans == CONJ && cx.is_known("F07")) { cx.exclude("F07"); o.trans = TRANS; }
    std::vector<T> B0 = e.B;
    vf_case_begin(cx.fill(0xA5));
    apply_tuning(o.tune);
    apply_opts(o, e.so);
    if (o.colperm == MY_PERMC) e.perm_c = o.my_perm_c;
    // a quarter of the cases factor inside a generous caller workspace (base 0 or 4 mod 8): everything the driver does after the
    // factorization - solve, refinement, estimates, unscaling - must be indifferent to where the factors live
    std::vector<char> wsbuf;
    if (((cx.hash >> 9) & 3) == 0) { wsbuf.assign(((size_t)2 << 20) + 8, (char)0x5A); e.work = wsbuf.data() + (((cx.hash >> 11) & 1) ? 4 : 0); e.lwork = (int_t)2 << 20; cx.label("caller-workspace"); }
    e.bind();
    if (e.call()) { cx.fail("abort", fmt("gssvx: library called ABORT: %s", vf_abort_msg())); vf_purge(); return; }
    long long info = e.info;
    if (e.lwork > 0 && e.info > n + 1) { e.lu_live = false; e.teardown(); vf_purge(); cx.skip("the 2 MB caller workspace did not suffice (shortages are judged by C08)"); return; }
    if (info < 0 || info > n + 1) { e.lu_live = false; e.teardown(); vf_purge(); VF_FAIL(cx, "info", "valid call returned info=%lld", info); }
    if (info >= 1 && info <= n) { cx.label("singular-return"); e.teardown(); ledger_clean(cx, "after singular return"); return; }
    bool ok = true, nt = false;
    LD uu = Consts<T>::u();
    bool notran_eff = o.nr ? (o.trans != NOTRANS) : (o.trans == NOTRANS);
    trans_t trant = o.nr ? (o.trans == NOTRANS ? TRANS : NOTRANS) : o.trans;
    // row storage with Trans = CONJ: A^H x = b is conj(AA) x = b, solved as AA conj(x) = conj(b)
    const bool conj_nr = cplx && o.nr && o.trans == CONJ;
    bool rowequ = e.rowequ(), colequ = e.colequ();
    const std::vector<R> *xs = notran_eff ? (colequ ? &e.Cs : nullptr) : (rowequ ? &e.Rs : nullptr);   // X = Y .* xs
    int steps = e.stat.RefineSteps;
    do {
        if (o.refine == NOREFINE) {
            for (int j = 0; j < nrhs && ok; ++j) if (!(e.ferr[j] == (R)1 && e.berr[j] == (R)1)) { cx.fail("noref-errors", fmt("IterRefine=NOREFINE but ferr[%d]=%g berr[%d]=%g (both must be exactly 1)", j, (double)e.ferr[j], j, (double)e.berr[j])); ok = false; }
            if (!ok) break;
#ifdef VF_VENDOR_BLAS
            // an optimised BLAS may round differently for another leading dimension / alignment: bit-identity with a second
            // ?gstrs call is only demanded of the bundled reference BLAS (false alarm seen with OpenBLAS, ldx = n + 1)
            cx.label("unrefined-x:not-bitwise(vendor BLAS)"); nt = e.equed[0] != 'N' || o.trans != NOTRANS; break;
#endif
            // X must be the unrefined solution: ?gstrs on the (scaled) right-hand side, then the documented unscaling
            std::vector<T> Y((size_t)n * nrhs);
            for (int j = 0; j < nrhs; ++j) for (int i = 0; i < n; ++i) { T v = e.B[(size_t)j * ldb + i]; if (conj_nr) v = to_T<T>(Val{(double)std::real(widen<T>(v)), -(double)std::imag(widen<T>(v))}); Y[(size_t)j * n + i] = v; }   // B on exit is the scaled rhs
            DenseView<T> Yv; Yv.create(n, nrhs, Y.data(), n); int sinfo = -999;
            bool ab = guarded([&] { Tr<T>::gstrs(trant, &e.L, &e.U, e.perm_c.data(), e.perm_r.data(), &Yv.X, &e.stat, &sinfo); });
            Yv.destroy();
            if (ab) { cx.fail("abort", fmt("gstrs: library called ABORT: %s", vf_abort_msg())); ok = false; break; }
            for (int j = 0; j < nrhs && ok; ++j) for (int i = 0; i < n && ok; ++i) {
                T want = Y[(size_t)j * n + i]; if (conj_nr) want = to_T<T>(Val{(double)std::real(widen<T>(want)), -(double)std::imag(widen<T>(want))}); if (xs) want = want * (*xs)[i];
                if (std::memcmp(&want, &e.X[(size_t)j * ldx + i], sizeof(T)) != 0) { cx.fail("unrefined-x", fmt("IterRefine=NOREFINE: X(%d,%d)=%s differs from the plain triangular solve of the returned factors, %s", i, j, w_str(widen<T>(e.X[(size_t)j * ldx + i])).c_str(), w_str(widen<T>(want)).c_str())); ok = false; }
            }
            nt = e.equed[0] != 'N' || o.trans != NOTRANS;
            break;
        }
        // ---- refinement on ---------------------------------------------------------------------
        if (!(steps >= 0 && steps <= 5)) { cx.fail("refine-steps", fmt("RefineSteps=%d (at most 5 are allowed)", steps)); ok = false; break; }
        Dense<W> AAeq = factored_matrix(e);
        const LD safmin = (LD)std::numeric_limits<R>::min(), nz = n + 1, safe1 = nz * safmin, safe2 = safe1 / uu;
        bool zero_comp = false;
        for (int j = 0; j < nrhs && ok; ++j) {
            if (!(e.ferr[j] >= 0) || !std::isfinite((double)e.ferr[j])) { cx.fail("ferr", fmt("ferr[%d]=%g is not a finite non-negative number", j, (double)e.ferr[j])); ok = false; break; }
            // map X back to the variables of the factored system
            std::vector<W> y(n); bool fin = true;
            for (int i = 0; i < n; ++i) { W x = widen<T>(e.X[(size_t)j * ldx + i]); if (!finite_w(x)) fin = false; y[i] = xs ? x / (LD)(*xs)[i] : x; }
            if (!fin) { cx.skip("overflow-degenerate"); break; }
            LD s = 0; bool tiny_den = false;
            for (int i = 0; i < n; ++i) {
                W bi = widen<T>(e.B[(size_t)j * ldb + i]);    // scaled right-hand side
                if (bi == W(0)) zero_comp = true;
                W r = bi; LD den = abs1(bi);
                for (int k = 0; k < n; ++k) {
                    W a = trant == NOTRANS ? (conj_nr ? conj_w(AAeq(i, k)) : AAeq(i, k)) : (trant == CONJ ? conj_w(AAeq(k, i)) : AAeq(k, i));
                    if (a == W(0)) continue;
                    r -= a * y[k]; den += abs1(a) * abs1(y[k]);
                }
                if (den > safe2 * 8) s = std::max(s, abs1(r) / den);
                else if (den != 0) tiny_den = true;
            }
            if (tiny_den) { cx.label("tiny-denominator(not judged)"); continue; }
            LD tol = 4 * (nz + 2) * uu + 8 * uu * s;
            // the library evaluates the residual in working precision: with an O(1) backward error a few ulps of the terms is all that can differ
            if (!(std::fabs((LD)e.berr[j] - s) <= tol)) { cx.fail("berr", fmt("berr[%d]=%.9g but the componentwise backward error of the returned X(:,%d) for the factored system is %.9Lg (|diff| %.3Lg > %.3Lg, RefineSteps=%d)", j, (double)e.berr[j], j, s, std::fabs((LD)e.berr[j] - s), tol, steps)); ok = false; break; }
        }
        nt = steps >= 1 || e.equed[0] != 'N' || o.trans != NOTRANS || zero_comp;
        if (steps >= 1) cx.label("refine-steps>0");
        if (zero_comp) cx.label("zero-component-in-B");
    } while (0);
    cx.label(std::string("equed=") + e.equed[0]);
    e.teardown();
    if (!ok) { vf_purge(); return; }
    if (!ledger_clean(cx, "after the expert driver")) return;
    cx.nontrivial = nt && !cx.skipped;
}

static void run(char type, Choice &c, Ctx &cx)
{
    switch (type) {
    case 's': run_T<float>(c, cx); break;
    case 'd': run_T<double>(c, cx); break;
    case 'c': run_T<cfloat>(c, cx); break;
    default: run_T<cdouble>(c, cx); break;
    }
}

const PropInfo vf_prop = {
    "C13",
    "structurally nonsingular square A (optionally two nearly dependent columns, row/column scalings 2^k), B with nrhs 1..3 including zero columns and zero components, Trans x Equil x IterRefine x NC/NR x orderings x tunings through ?gssvx; "
    "oracle with refinement: BERR(j) = max_i |r_i| / (|op(AA)||Y| + |B_s|)_i recomputed in long double for the returned X mapped back to the factored (equilibrated) system, library magnitudes (|re|+|im|), safe1/safe2 guard replicated, "
    "|BERR - ref| <= 4(n+3)eps + 8 eps ref; FERR finite and >= 0; RefineSteps <= 5; without refinement: FERR = BERR = 1 exactly and X bit-identical to ?gstrs on the scaled right-hand side followed by the documented unscaling; "
    "non-trivial = refinement with >= 1 step, or equed != N, or Trans != NOTRANS, or a zero component in B; distinct = hash of consumed stream prefix and type",
    run, "sdcz"};

}  // namespace vf
