/* Replacement for SRC/sp_ienv.c (the documented tuning interface: "users are
 * encouraged to modify this subroutine"; TESTING/ links its own, too).
 * Reads a per-thread record set by the harness for each case.  Entry 0 != 0
 * selects the tree's own sp_ienv, compiled as sp_ienv_stock. */
#include "tuning.h"
__thread int vf_tune[8] = {1, 0, 0, 0, 0, 0, 0, 0};
extern int sp_ienv_stock(int);
extern int input_error(char *, int *);
int sp_ienv(int ispec)
{
    if (vf_tune[0]) return sp_ienv_stock(ispec);
    if (ispec >= 1 && ispec <= 7) return vf_tune[ispec];
    { int i = 1; input_error("sp_ienv", &i); }
    return 0;
}
