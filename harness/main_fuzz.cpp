// Front end: libFuzzer (engine E2).  The same bytes go to the same decoder and the same property
// function as under rapidcheck; the semantic oracle is inside the target.  Byte 0 selects the arithmetic type.
#include "front.hpp"
#include "ledger.h"
#include "isolate.hpp"
#include <cstdlib>

using namespace vf;

static Ctx g_cx; static bool g_init = false; static long g_execs = 0, g_nontrivial = 0;

static void init()
{
    g_init = true;
    const char *k = getenv("VF_KNOWN");
    if (k) { std::string cur; for (const char *p = k;; ++p) { if (*p == ',' || *p == 0) { if (!cur.empty()) g_cx.known.insert(cur); cur.clear(); if (!*p) break; } else cur += *p; } }
    g_cx.tier = getenv("VF_TIER_THOROUGH") ? 1 : 0;
    atexit([] { fprintf(stderr, "VF-FUZZ-STATS execs=%ld nontrivial=%ld\n", g_execs, g_nontrivial); });
    int nul = open("/dev/null", O_WRONLY); if (nul >= 0) { dup2(nul, 1); close(nul); }   // the library chats on stdout
}

extern "C" int LLVMFuzzerTestOneInput(const uint8_t *data, size_t size)
{
    if (!g_init) init();
    if (size < 1) return 0;
    const char *types = vf_prop.types; size_t nt = strlen(types);
    char type = types[data[0] % nt];
    g_cx.begin(); g_cx.type = type;
    Choice c(data + 1, size - 1);
    vf_prop.run(type, c, g_cx);
    ++g_execs; if (g_cx.nontrivial && !g_cx.failed) ++g_nontrivial;
    if (g_cx.failed) {
        fprintf(stderr, "VF-FUZZ-FAIL property=%s type=%c oracle=%s msg=%s\n", vf_prop.id, type, g_cx.oracle.c_str(), g_cx.msg.c_str());
        fprintf(stderr, "VF-FUZZ-BYTES %c %s\n", type, to_hex(data + 1, size - 1).c_str());
        fflush(stderr);
        __builtin_trap();
    }
    return 0;
}
