#ifndef VF_TUNING_H
#define VF_TUNING_H
#ifdef __cplusplus
extern "C" {
#endif
/* [0] != 0: stock; [1..7]: panel, relax, maxsuper, rowblk, colblk, fill, ilu maxsuper */
extern __thread int vf_tune[8];
int sp_ienv(int);
#ifdef __cplusplus
}
#endif
#endif
