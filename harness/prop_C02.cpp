// C02 - factors reproduce the permuted matrix; pivoting bounds hold.
#include "lucheck.hpp"
#include <map>

namespace vf {

template <class T> static void run_T(Choice &c, Ctx &cx)
{
    typedef typename Wide<T>::W W; typedef typename Tr<T>::R R;
    const bool cplx = Tr<T>::is_complex, single = sizeof(R) == 4;
    unsigned mode = c.below(4);                 // 0,1: sp_preorder + ?gstrf (tall allowed); 2,3: ?gssv
    bool direct = mode < 2;
    int n = gen_size(c, cx.tier);
    int m = n;
    if (direct) { static const unsigned w[] = {10, 2, 2, 1, 1, 1, 1}; m = n + (int)c.weighted(w); }
    std::string family;
    PatMode pm = c.chance(24) ? PAT_ANY : PAT_NONSING;
    auto pat = gen_pattern(c, m, n, pm, family);
    GMat G = gen_values(c, m, n, pat, cplx, single, family);
    Opts o = gen_opts(c, n, single, m == n, false);
    if (direct) o.nr = false;
    int nrhs = direct ? 0 : (int)c.below(3);
    Comp<T> S = to_comp<T>(G, o.nr, o.shuffle_rows ? &c : nullptr);
    std::vector<T> B = direct ? std::vector<T>() : gen_rhs<T>(c, n, nrhs, n, cplx);
    cx.hash = fnv1a(c.d, c.consumed(), 0x9e3779b97f4a7c15ULL ^ (uint64_t)Tr<T>::letter);
    if (cx.dump) { cx.d(fmt("mode=%s m=%d n=%d nrhs=%d", direct ? "sp_preorder+gstrf" : "gssv", m, n, nrhs)); cx.d(opts_str(o, false)); cx.d(gmat_str(G, cplx)); }
    cx.label(std::string("mode=") + (direct ? "gstrf" : "gssv"));
    cx.label("family=" + G.family);
    cx.label(std::string("colperm=") + colperm_name(o.colperm));

    // Known finding F-SS: a structurally singular matrix makes ?gstrf read uninitialised factor
    // storage (columns without any pivot candidate).  Route around it while it is open.
    if (cx.is_known("F-SS") && maybe_exactly_singular(G)) { cx.exclude("F-SS"); cx.label("exactly-singular(excluded)"); return; }
    // the matrix that is factored: A, or A^T for row storage
    Dense<W> AA = dense_of(S);
    if (o.nr) AA = transpose(AA);

    vf_case_begin(cx.fill(0xA5));
    apply_tuning(o.tune);
    superlu_options_t so; set_default_options(&so); apply_opts(o, so);
    std::vector<int> perm_r(m, -1), perm_c(n, -1), etree(n, -1);
    if (o.colperm == MY_PERMC) perm_c = o.my_perm_c;
    std::vector<int_t> idx0 = S.idx, ptr0 = S.ptr; std::vector<T> val0 = S.val;
    MatView<T> A; A.create(S);
    SuperMatrix L, U, AC; std::memset(&L, 0, sizeof L); std::memset(&U, 0, sizeof U);
    SuperLUStat_t stat; StatInit(&stat);
    int_t info = -999;
    GlobalLU_t Glu;
    bool have_ac = false;
    DenseView<T> Bv;
    if (direct) {
        VF_GUARDED(cx, "get_perm_c/sp_preorder/gstrf", [&] {
            if (o.colperm != MY_PERMC) get_perm_c((int)o.colperm, &A.A, perm_c.data());
            sp_preorder(&so, &A.A, perm_c.data(), etree.data(), &AC); have_ac = true;
            Tr<T>::gstrf(&so, &AC, sp_ienv(2), sp_ienv(1), etree.data(), nullptr, 0, perm_c.data(), perm_r.data(), &L, &U, &Glu, &stat, &info);
        });
    } else {
        Bv.create(n, nrhs, B.data(), n);
        VF_GUARDED(cx, "gssv", [&] { Tr<T>::gssv(&so, &A.A, perm_c.data(), perm_r.data(), &L, &U, &Bv.X, &stat, &info); });
    }
    bool factors_exist = info >= 0 && info <= n;
    auto cleanup = [&] {
        if (factors_exist) { Destroy_SuperNode_Matrix(&L); Destroy_CompCol_Matrix(&U); }
        if (have_ac) Destroy_CompCol_Permuted(&AC);
        A.destroy(); Bv.destroy(); StatFree(&stat);
    };
    if (info < 0 || info > n) { cleanup(); vf_purge(); VF_FAIL(cx, "info", "valid call returned info=%lld (n=%d)", (long long)info, n); }
    if (!bytes_equal(S.idx, idx0) || !bytes_equal(S.ptr, ptr0) || !bytes_equal(S.val, val0)) { cleanup(); VF_FAIL(cx, "input-modified", "the caller's matrix arrays were modified"); }
    if (info > 0) { cx.label("singular-return"); cleanup(); ledger_clean(cx, "after singular return"); return; }
    LUDecoded<T> dec;
    bool ok = check_lu<T>(cx, AA, perm_r.data(), perm_c.data(), &L, &U, o.u, true, false, dec);
    int expansions = stat.expansions;
    // The same bounds hold when the factors are re-used for other values on the same pattern (Fact = SamePattern_SameRowPerm):
    // a remembered pivot is kept only while it passes the threshold test, so every multiplier stays within 1/u and
    // Pr*A*Pc = L*U still holds (the diagonal preference is not demanded then, as the property says).
    if (ok && direct && !dec.degenerate && m == n && c.chance(96)) {
        GMat G2 = G; ValGen g; g.kind = c.chance(128) ? 1 : 0; g.cmode = 0; g.expK = 0; g.explicit_zero = false;
        for (auto &col : G2.col) for (auto &en : col) en.second = g.value(c, cplx);
        if (!(cx.is_known("F-SS") && maybe_exactly_singular(G2))) {
            Comp<T> fresh = to_comp<T>(G2, false, nullptr);
            std::map<std::pair<int_t, int_t>, T> mv; for (int kk = 0; kk < n; ++kk) for (int_t p = fresh.ptr[kk]; p < fresh.ptr[kk + 1]; ++p) mv[{(int_t)kk, fresh.idx[p]}] = fresh.val[p];
            for (int kk = 0; kk < n; ++kk) for (int_t p = S.ptr[kk]; p < S.ptr[kk + 1]; ++p) S.val[p] = mv[{(int_t)kk, S.idx[p]}];
            so.Fact = SamePattern_SameRowPerm; info = -999;
            bool ab = guarded([&] { Tr<T>::gstrf(&so, &AC, sp_ienv(2), sp_ienv(1), etree.data(), nullptr, 0, perm_c.data(), perm_r.data(), &L, &U, &Glu, &stat, &info); }) != 0;
            if (ab) { cx.fail("abort", fmt("gstrf(SamePattern_SameRowPerm): library called ABORT: %s", vf_abort_msg())); factors_exist = false; cleanup(); vf_purge(); return; }
            if (info < 0 || info > n) { factors_exist = false; cleanup(); vf_purge(); VF_FAIL(cx, "info", "re-use of the factors returned info=%lld", (long long)info); }
            if (info == 0) {
                Dense<W> AA2 = dense_of(S); LUDecoded<T> dec2;
                ok = check_lu<T>(cx, AA2, perm_r.data(), perm_c.data(), &L, &U, o.u, false, false, dec2);
                if (!ok) cx.msg = "after re-use with SamePattern_SameRowPerm: " + cx.msg;
                else cx.label("refactored-same-row-perm");
            } else cx.label("singular-return(re-use)");
        }
    }
    cleanup();
    if (!ok) { vf_purge(); return; }
    if (!ledger_clean(cx, "after destroying L, U, AC, A")) return;
    if (dec.degenerate) { cx.skip("overflow-degenerate"); return; }
    cx.label(dec.fs.multi ? "supernodes=multi" : "supernodes=singleton");
    if (dec.offdiag_pivots) cx.label("offdiag-pivot");
    if (dec.diag_preferred) cx.label("diag-preferred-over-max");
    if (m > n) cx.label("tall");
    if (expansions > 0) cx.label("expansions>0");
    cx.label(fmt("u=%g", o.u));
    cx.nontrivial = n >= 2 && (dec.offdiag_pivots > 0 || dec.fs.multi > 0 || m > n || dec.diag_preferred > 0);
}

static void run(char type, Choice &c, Ctx &cx)
{
    switch (type) {
    case 's': run_T<float>(c, cx); break;
    case 'd': run_T<double>(c, cx); break;
    case 'c': run_T<cfloat>(c, cx); break;
    default: run_T<cdouble>(c, cx); break;
    }
}

const PropInfo vf_prop = {
    "C02",
    "m x n matrix (m>=n, 15 pattern families x 7 value families, orderings incl. MY_PERMC, threshold u, SymmetricMode, tuning) "
    "factored through sp_preorder+?gstrf (tall allowed) or ?gssv (NC/NR); oracle: perms are bijections, C03 structure predicate, "
    "|Pr*A*Pc - L*U| <= c*n*eps*|L||U| entrywise, U diagonal nonzero/finite, |multiplier| <= 1/u, diagonal chosen whenever it passes the threshold; "
    "non-trivial = info 0, n>=2 and (an off-diagonal pivot, or a multi-column supernode, or m>n, or diagonal preferred over a larger candidate); "
    "distinct = hash of the consumed choice-stream prefix and the arithmetic type",
    run, "sdcz"};

}  // namespace vf
