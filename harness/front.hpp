// Shared front-end machinery: running one case, statistics, JSON output, replay files.
#pragma once
#include "core.hpp"
#include <unordered_set>
#include <unordered_map>
#include <chrono>
#include <csignal>
#include <unistd.h>
#include <fcntl.h>

namespace vf {

inline std::string json_escape(const std::string &s)
{
    std::string o;
    for (unsigned char ch : s) {
        switch (ch) {
        case '"': o += "\\\""; break;
        case '\\': o += "\\\\"; break;
        case '\n': o += "\\n"; break;
        case '\t': o += "\\t"; break;
        case '\r': o += "\\r"; break;
        default: if (ch < 0x20) o += fmt("\\u%04x", ch); else o += (char)ch;
        }
    }
    return o;
}

inline std::string to_hex(const uint8_t *d, size_t n)
{
    static const char *h = "0123456789abcdef";
    std::string s; s.reserve(n * 2);
    for (size_t i = 0; i < n; ++i) { s += h[d[i] >> 4]; s += h[d[i] & 15]; }
    return s;
}

inline std::vector<uint8_t> from_hex(const std::string &s)
{
    std::vector<uint8_t> v;
    auto val = [](char ch) -> int { if (ch >= '0' && ch <= '9') return ch - '0'; if (ch >= 'a' && ch <= 'f') return ch - 'a' + 10; if (ch >= 'A' && ch <= 'F') return ch - 'A' + 10; return -1; };
    for (size_t i = 0; i + 1 < s.size(); i += 2) { int a = val(s[i]), b = val(s[i + 1]); if (a < 0 || b < 0) break; v.push_back((uint8_t)(a * 16 + b)); }
    return v;
}

struct Failure {
    bool present = false;
    char type = 'd';
    std::string oracle, msg, desc;
    std::vector<uint8_t> bytes;
};

struct Stats {
    long evaluations = 0, nontrivial = 0, skipped = 0, failed_evals = 0, shrink_evals = 0, budget_skipped = 0;
    std::unordered_set<uint64_t> distinct;
    std::map<std::string, long> labels, skips, excluded;
    std::vector<std::string> samples;
    size_t max_samples = 4;
    Failure first_fail, last_fail;
    std::string state = "running";   // running | done | crashed | hang
    double wall = 0;
};

struct Runner {
    Ctx cx;
    Stats st;
    std::string stats_path, scratch_path;
    int scratch_fd = -1;
    bool searching = true;     // false once the first failure was seen (shrink phase)
    std::chrono::steady_clock::time_point t0 = std::chrono::steady_clock::now();
    double budget = 0;         // seconds; 0 = none
    double shrink_t0 = -1;
    unsigned case_alarm = 120; // seconds per case before the run is declared hung

    double elapsed() const { return std::chrono::duration<double>(std::chrono::steady_clock::now() - t0).count(); }

    void note_scratch(char type, const uint8_t *d, size_t n) {
        if (scratch_fd < 0) return;
        std::string line = std::string(1, type) + " " + to_hex(d, n) + "\n";
        if (ftruncate(scratch_fd, 0) == 0) { ssize_t w = pwrite(scratch_fd, line.data(), line.size(), 0); (void)w; }
    }

    // Run one case.  Returns true when the property held (or the case was skipped).
    bool run_case(char type, const uint8_t *d, size_t n, bool count = true) {
        note_scratch(type, d, n);
        cx.begin(); cx.type = type;
        Choice c(d, n); c.set_tail(cx.tailmode);
        alarm(case_alarm);
        vf_prop.run(type, c, cx);
        alarm(0);
        if (c.pos > c.n) cx.label(c.pos > 2 * c.n + 16 ? "stream:mostly-tail" : "stream:exhausted"); else cx.label("stream:within");
        if (count && searching) {
            st.evaluations++;
            for (auto &l : cx.labels) st.labels[l]++;
            for (auto &e : cx.excluded) st.excluded[e]++;
            if (cx.skipped) { st.skipped++; st.skips[cx.skip_reason]++; }
            if (!cx.failed && !cx.skipped && cx.nontrivial) {
                st.nontrivial++;
                bool fresh = st.distinct.insert(cx.hash).second;
                if (fresh && st.samples.size() < st.max_samples && (st.distinct.size() % 97 == 1 || st.samples.empty())) {
                    Ctx saved = cx;
                    cx.dump = true; cx.begin(); cx.type = type;
                    Choice c2(d, n); c2.set_tail(cx.tailmode); vf_prop.run(type, c2, cx);
                    st.samples.push_back(fmt("type=%c bytes=%zu\n", type, n) + cx.desc + "labels: " + [&] { std::string s; for (auto &l : saved.labels) s += l + " "; return s; }());
                    cx = saved; cx.dump = false;
                }
            }
        } else if (count) st.shrink_evals++;
        if (cx.failed) {
            Failure f; f.present = true; f.type = type; f.oracle = cx.oracle; f.msg = cx.msg; f.bytes.assign(d, d + n);
            if (!st.first_fail.present) st.first_fail = f;
            st.last_fail = f;
            if (count) { st.failed_evals++; searching = false; }
            return false;
        }
        return true;
    }

    std::string describe(char type, const std::vector<uint8_t> &b) {
        Ctx saved = cx;
        cx.dump = true; cx.begin(); cx.type = type;
        Choice c(b.data(), b.size()); c.set_tail(cx.tailmode); vf_prop.run(type, c, cx);
        std::string s = cx.desc;
        cx = saved;
        return s;
    }

    static std::string fail_json(const Failure &f) {
        if (!f.present) return "null";
        return fmt("{\"type\":\"%c\",\"oracle\":\"%s\",\"msg\":\"%s\",\"bytes\":\"%s\",\"desc\":\"%s\"}", f.type, json_escape(f.oracle).c_str(),
                   json_escape(f.msg).c_str(), to_hex(f.bytes.data(), f.bytes.size()).c_str(), json_escape(f.desc).c_str());
    }

    void write_stats(const char *state) {
        if (stats_path.empty()) return;
        st.state = state; st.wall = elapsed();
        std::string s = "{";
        s += fmt("\"property\":\"%s\",\"state\":\"%s\",\"evaluations\":%ld,\"nontrivial\":%ld,\"distinct_nontrivial\":%zu,\"skipped\":%ld,\"shrink_evals\":%ld,\"budget_skipped\":%ld,\"wall\":%.3f,",
                 vf_prop.id, state, st.evaluations, st.nontrivial, st.distinct.size(), st.skipped, st.shrink_evals, st.budget_skipped, st.wall);
        auto mapj = [](const std::map<std::string, long> &m) { std::string o = "{"; bool first = true; for (auto &kv : m) { if (!first) o += ","; first = false; o += "\"" + json_escape(kv.first) + "\":" + std::to_string(kv.second); } return o + "}"; };
        s += "\"labels\":" + mapj(st.labels) + ",\"skips\":" + mapj(st.skips) + ",\"excluded\":" + mapj(st.excluded) + ",";
        s += "\"samples\":[";
        for (size_t i = 0; i < st.samples.size(); ++i) { if (i) s += ","; s += "\"" + json_escape(st.samples[i]) + "\""; }
        s += "],";
        s += "\"first_failure\":" + fail_json(st.first_fail) + ",\"failure\":" + fail_json(st.last_fail) + "}";
        std::string tmp = stats_path + ".tmp";
        FILE *f = fopen(tmp.c_str(), "w");
        if (f) { fwrite(s.data(), 1, s.size(), f); fclose(f); rename(tmp.c_str(), stats_path.c_str()); }
        std::string hp = stats_path + ".hashes";
        f = fopen(hp.c_str(), "wb");
        if (f) { for (uint64_t h : st.distinct) fwrite(&h, sizeof h, 1, f); fclose(f); }
    }
};

}  // namespace vf
