// C20 - the Fortran-callable bridge: factor once, solve many, free all.
#include "lucheck.hpp"

namespace vf {

template <class T> struct Handle {
    bool live = false; long long h = 0;
    int n = 0; GMat G; Comp<T> S;                 // 0-based copy for the reference
    std::vector<int_t> rowind1, colptr1; std::vector<T> values;   // the caller's 1-based Fortran arrays
    Tuning tune;
    int solves = 0;
    std::vector<T> last_b, last_x; int last_nrhs = 0, last_ldb = 0;
};

template <class T> static void run_T(Choice &c, Ctx &cx)
{
    typedef typename Wide<T>::W W; typedef typename Tr<T>::R R;
    const bool cplx = Tr<T>::is_complex, single = sizeof(R) == 4;
    const int NH = 3;
    Handle<T> hs[NH];
    int steps = 2 + (int)c.below(cx.tier > 0 ? 30u : 12u);
    cx.hash = 0xC20ULL ^ ((uint64_t)Tr<T>::letter << 32);
    vf_case_begin(cx.fill(0xA5));
    int max_live = 0, interleaved_solves = 0, total_solves = 0, factors = 0; bool two_on_one = false;
    bool ok = true;
    std::string hist;
    auto free_handle = [&](Handle<T> &H) {
        int iopt = 3, nrhs = 1, ldb = H.n; int_t nnz = (int_t)H.values.size(), info = -999; T dummy = T(0);
        bool ab = guarded([&] { Tr<T>::fortran_gssv(&iopt, &H.n, &nnz, &nrhs, H.values.data(), H.rowind1.data(), H.colptr1.data(), &dummy, &ldb, &H.h, &info); });
        H.live = false;
        return !ab;
    };
    for (int st = 0; st < steps && ok; ++st) {
        int hi = (int)c.below(NH); Handle<T> &H = hs[hi];
        unsigned op = c.below(8);            // 0,1 factor (or re-factor after free), 2..6 solve, 7 free
        if (!H.live) op = 0;
        if (op <= 1 && H.live) op = 2;
        if (op <= 1) {
            // ---- factor -----------------------------------------------------------------------
            int n = gen_size(c, cx.tier, 10, 30);
            std::string family;
            auto pat = gen_pattern(c, n, n, PAT_NONSING, family);
            GMat G = gen_values(c, n, n, pat, cplx, single, family, false);
            if (maybe_exactly_singular(G)) { hist += fmt("[h%d factor skipped: exactly singular] ", hi); continue; }
            H.n = n; H.G = G; H.S = to_comp<T>(G, false, c.chance(128) ? &c : nullptr);
            H.tune = gen_tuning(c);
            H.values = H.S.val; H.rowind1.assign(H.S.idx.begin(), H.S.idx.end()); H.colptr1.assign(H.S.ptr.begin(), H.S.ptr.end());
            for (auto &v : H.rowind1) v += 1; for (auto &v : H.colptr1) v += 1;
            H.values.reserve(H.values.size() + 1); H.rowind1.reserve(H.rowind1.size() + 1);
            std::vector<T> v0 = H.values; std::vector<int_t> r0 = H.rowind1, c0 = H.colptr1;
            int iopt = 1, nrhs = 1, ldb = n; int_t nnz = (int_t)H.values.size(), info = -999; T dummy = T(0);
            apply_tuning(H.tune);
            H.h = 0;
            if (guarded([&] { Tr<T>::fortran_gssv(&iopt, &H.n, &nnz, &nrhs, H.values.data(), H.rowind1.data(), H.colptr1.data(), &dummy, &ldb, &H.h, &info); })) { cx.fail("abort", fmt("factor request: library called ABORT: %s", vf_abort_msg())); ok = false; break; }
            ++factors;
            hist += fmt("h%d:factor(n=%d,info=%lld) ", hi, n, (long long)info);
            if (cx.dump) { cx.d(fmt("step %d: handle %d factor n=%d tuning{%s}", st, hi, n, tuning_str(H.tune).c_str())); cx.d(gmat_str(G, cplx)); }
            if (!bytes_equal(H.values, v0) || !bytes_equal(H.rowind1, r0) || !bytes_equal(H.colptr1, c0)) { cx.fail("arrays-modified", fmt("factor request on handle %d changed the caller's 1-based arrays", hi)); ok = false; break; }
            if (H.h == 0) { cx.fail("null-handle", "factor request returned a null handle"); ok = false; break; }
            H.live = true; H.solves = 0; H.last_b.clear();
            if (info != 0) {
                if (info > 0 && info <= n) { cx.label("singular-return"); if (!free_handle(H)) { cx.fail("abort", "free request aborted"); ok = false; } continue; }
                cx.fail("factor-info", fmt("factor request on a nonsingular matrix returned info=%lld", (long long)info)); ok = false; break;
            }
            int live = 0; for (auto &q : hs) live += q.live; max_live = std::max(max_live, live);
        } else if (op <= 6) {
            // ---- solve ------------------------------------------------------------------------
            int n = H.n, nrhs = 1 + (int)c.below(4), ldb = n + (int)c.below(3);
            std::vector<T> B = gen_rhs<T>(c, n, nrhs, ldb, cplx), B0 = B;
            bool repeat = !H.last_b.empty() && c.chance(60);
            if (repeat) { B = H.last_b; B0 = B; nrhs = H.last_nrhs; ldb = H.last_ldb; }
            int iopt = 2; int_t nnz = (int_t)H.values.size(), info = -999;
            std::vector<T> v0 = H.values; std::vector<int_t> r0 = H.rowind1, c0 = H.colptr1;
            apply_tuning(H.tune);
            if (guarded([&] { Tr<T>::fortran_gssv(&iopt, &H.n, &nnz, &nrhs, H.values.data(), H.rowind1.data(), H.colptr1.data(), B.data(), &ldb, &H.h, &info); })) { cx.fail("abort", fmt("solve request: library called ABORT: %s", vf_abort_msg())); ok = false; break; }
            ++total_solves; H.solves++; if (H.solves >= 2) two_on_one = true;
            { int live = 0; for (auto &q : hs) live += q.live; if (live >= 2) ++interleaved_solves; }
            hist += fmt("h%d:solve(nrhs=%d,ldb=%d%s) ", hi, nrhs, ldb, repeat ? ",repeat" : "");
            if (cx.dump) cx.d(fmt("step %d: handle %d solve nrhs=%d ldb=%d%s", st, hi, nrhs, ldb, repeat ? " (same right-hand side again)" : ""));
            if (info != 0) { cx.fail("solve-info", fmt("solve request returned info=%lld", (long long)info)); ok = false; break; }
            if (!bytes_equal(H.values, v0) || !bytes_equal(H.rowind1, r0) || !bytes_equal(H.colptr1, c0)) { cx.fail("arrays-modified", "solve request changed the matrix arrays"); ok = false; break; }
            for (int j = 0; j < nrhs && ok; ++j) for (int i = n; i < ldb; ++i) if (std::memcmp(&B[(size_t)j * ldb + i], &B0[(size_t)j * ldb + i], sizeof(T)) != 0) { cx.fail("padding", fmt("padding row %d of column %d overwritten", i, j)); ok = false; }
            if (ok && std::memcmp(&B.back(), &B0.back(), sizeof(T)) != 0) { cx.fail("padding", "element past the end of b overwritten"); ok = false; }
            if (!ok) break;
            if (repeat && !bytes_equal(B, H.last_x)) { cx.fail("repeat-solve", fmt("solving the same right-hand side again with handle %d gave a different result", hi)); ok = false; break; }
            // reference: the C simple driver with default options and the same tuning on the same matrix
            {
                superlu_options_t so; set_default_options(&so);
                Comp<T> S = H.S; std::vector<T> X = B0;
                std::vector<int> perm_r(n, -1), perm_c(n, -1);
                MatView<T> A; A.create(S); DenseView<T> Xv; Xv.create(n, nrhs, X.data(), ldb);
                SuperMatrix L, U; SuperLUStat_t stat; StatInit(&stat); int_t ginfo = -999;
                apply_tuning(H.tune);
                bool ab = guarded([&] { Tr<T>::gssv(&so, &A.A, perm_c.data(), perm_r.data(), &L, &U, &Xv.X, &stat, &ginfo); });
                if (ab) { cx.fail("abort", fmt("reference gssv aborted: %s", vf_abort_msg())); ok = false; break; }
                bool same = true;
#ifndef VF_VENDOR_BLAS
                same = bytes_equal(X, B);
#endif
                LUDecoded<T> dec; bool lu_ok = true;
                if (ginfo == 0) {
                    Dense<W> A0 = dense_of(S);
                    lu_ok = check_lu<T>(cx, A0, perm_r.data(), perm_c.data(), &L, &U, 1.0, true, false, dec);
                    if (lu_ok && !dec.degenerate) { Dense<LD> F = permute_back(dec.E, perm_r.data(), perm_c.data(), n, false); lu_ok = check_residual<T>(cx, A0, F, B.data(), ldb, B0.data(), ldb, nrhs, nullptr, nullptr, 1, "bridge-residual"); }
                }
                if (ginfo >= 0 && ginfo <= n) { Destroy_SuperNode_Matrix(&L); Destroy_CompCol_Matrix(&U); }
                A.destroy(); Xv.destroy(); StatFree(&stat);
                if (!lu_ok) { ok = false; break; }
                if (ginfo != 0) { cx.fail("reference", fmt("the C simple driver returned info=%lld on the matrix the bridge factored with info=0", (long long)ginfo)); ok = false; break; }
                if (!same) { cx.fail("differs-from-gssv", fmt("solve request on handle %d does not overwrite b with the solution the C simple driver returns for the same matrix (bit-for-bit, same tuning)", hi)); ok = false; break; }
            }
            H.last_b = B0; H.last_x = B; H.last_nrhs = nrhs; H.last_ldb = ldb;
        } else {
            hist += fmt("h%d:free ", hi);
            if (cx.dump) cx.d(fmt("step %d: handle %d free", st, hi));
            if (!free_handle(H)) { cx.fail("abort", fmt("free request: library called ABORT: %s", vf_abort_msg())); ok = false; break; }
        }
    }
    if (cx.dump) cx.d("history: " + hist);
    if (!ok) { vf_purge(); return; }
    for (auto &H : hs) if (H.live) { if (!free_handle(H)) { cx.fail("abort", "free request aborted"); vf_purge(); return; } }
    if (!ledger_clean(cx, "after a free request for every handle")) return;
    cx.hash = fnv1a(c.d, c.consumed(), cx.hash);
    cx.label(fmt("max-live-handles=%d", max_live)); if (two_on_one) cx.label(">=2-solves-on-one-handle"); if (interleaved_solves) cx.label("solve-while-another-handle-live");
    cx.label(fmt("solves=%d", std::min(total_solves, 6)));
    cx.nontrivial = (max_live >= 2 && interleaved_solves > 0) || two_on_one;
}

static void run(char type, Choice &c, Ctx &cx)
{
    switch (type) {
    case 's': run_T<float>(c, cx); break;
    case 'd': run_T<double>(c, cx); break;
    case 'c': run_T<cfloat>(c, cx); break;
    default: run_T<cdouble>(c, cx); break;
    }
}

const PropInfo vf_prop = {
    "C20",
    "histories of 2..13 (thorough: ..31) requests over three handles through c_fortran_?gssv_: factor (fresh nonsingular matrix in 1-based column storage, generated tuning), solve (nrhs 1..4, ldb n..n+2, sometimes the previous right-hand side again), free, "
    "in any interleaving, all live handles freed at the end; invariant after every step: the caller's 1-based arrays bit-identical, info = 0, handle non-null, padding untouched, b overwritten bit-for-bit (bundled BLAS) with what the C simple driver returns "
    "for the same matrix with default options and the same tuning and within the C01 residual bound, repeated solve identical, ledger balance zero at the end; "
    "non-trivial = a solve while >= 2 handles are live, or >= 2 solves on one handle; distinct = hash of consumed stream prefix and type",
    run, "sdcz"};

}  // namespace vf
