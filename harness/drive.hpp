// Helpers for driving library calls: ABORT capture, ledger checks, matrix wrappers.
#pragma once
#include "core.hpp"
#include "gen.hpp"
#include "ref.hpp"
#include "ledger.h"

namespace vf {

template <class F> inline int guarded(F &&f)
{
    typedef typename std::remove_reference<F>::type FT;
    return vf_try([](void *p) { (*static_cast<FT *>(p))(); }, (void *)&f);
}

// Run f under ABORT capture; an ABORT on a valid call is a failure of oracle "abort".
#define VF_GUARDED(cx, what, ...)                                                              \
    do { if (::vf::guarded(__VA_ARGS__)) { (cx).fail("abort", ::vf::fmt("%s: library called ABORT: %s", what, vf_abort_msg())); vf_purge(); return; } } while (0)

// After the caller destroyed everything it was handed: nothing of the library's may remain.
inline bool ledger_clean(Ctx &cx, const char *where)
{
    const vf_stats_t *st = vf_stats();
    if (st->bad_frees) { cx.fail("bad-free", fmt("%s: %ld free(s) of a pointer that is not a live block (double or invalid free)", where, st->bad_frees)); vf_purge(); return false; }
    long live = vf_live_blocks();
    if (live) {
        char buf[400]; vf_describe_live(buf, sizeof buf, 8);
        cx.fail("leak", fmt("%s: %ld block(s) still allocated after the caller destroyed its objects: %s", where, live, buf));
        vf_purge();
        return false;
    }
    return true;
}

// SuperMatrix view over harness-owned compressed storage.
template <class T> struct MatView {
    SuperMatrix A; bool live = false;
    void create(Comp<T> &S) {
        if (S.byrow) Tr<T>::Create_CompRow(&A, S.m, S.n, S.nnz(), S.val.data(), S.idx.data(), S.ptr.data(), SLU_NR, SLU_GE);
        else Tr<T>::Create_CompCol(&A, S.m, S.n, S.nnz(), S.val.data(), S.idx.data(), S.ptr.data(), SLU_NC, SLU_GE);
        live = true;
    }
    void destroy() { if (live) { Destroy_SuperMatrix_Store(&A); live = false; } }
};

template <class T> struct DenseView {
    SuperMatrix X; bool live = false;
    void create(int m, int n, T *x, int ld) { Tr<T>::Create_Dense(&X, m, n, x, ld); live = true; }
    void destroy() { if (live) { Destroy_SuperMatrix_Store(&X); live = false; } }
};

template <class T> inline T sentinel_value();
template <> inline float sentinel_value<float>() { return -7.25e11f; }
template <> inline double sentinel_value<double>() { return -7.25e111; }
template <> inline cfloat sentinel_value<cfloat>() { return cfloat(-7.25e11f, 3.5e9f); }
template <> inline cdouble sentinel_value<cdouble>() { return cdouble(-7.25e111, 3.5e99); }

template <class V> inline bool bytes_equal(const std::vector<V> &a, const std::vector<V> &b)
{
    return a.size() == b.size() && (a.empty() || std::memcmp(a.data(), b.data(), a.size() * sizeof(V)) == 0);
}

// Right-hand sides: nrhs columns of length n in an ld x nrhs array, padding rows hold sentinels.
template <class T> inline std::vector<T> gen_rhs(Choice &c, int n, int nrhs, int ld, bool cplx, int kindhint = -1)
{
    std::vector<T> B((size_t)ld * std::max(nrhs, 0) + 1, sentinel_value<T>());
    ValGen g; g.kind = kindhint >= 0 ? kindhint : (c.chance(128) ? 1 : 0); g.cmode = 0; g.expK = 0; g.explicit_zero = true;
    for (int j = 0; j < nrhs; ++j) {
        unsigned colkind = c.below(8);   // 0..5 ordinary, 6: zero column, 7: sparse column
        for (int i = 0; i < n; ++i) {
            Val v = g.value(c, cplx);
            if (colkind == 6) v = Val{0, 0};
            else if (colkind == 7 && (i % 2)) v = Val{0, 0};
            B[(size_t)j * ld + i] = to_T<T>(v);
        }
    }
    return B;
}

}  // namespace vf
