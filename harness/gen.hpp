// Structured generators decoded from the choice stream: sizes, sparsity
// patterns, values, options, tuning.  DESIGN.md section 3.
#pragma once
#include "core.hpp"
#include "slu_api.hpp"
#include "tuning.h"
#include "ledger.h"
#include <cmath>
#include <complex>

namespace vf {

struct Val { double re, im; };

// Logical (arithmetic-independent) sparse matrix, column lists sorted by row, no duplicates.
struct GMat {
    int m = 0, n = 0;
    std::vector<std::vector<std::pair<int, Val>>> col;
    std::string family, vkind;
    long nnz() const { long s = 0; for (auto &c : col) s += (long)c.size(); return s; }
};

inline std::vector<int> gen_perm(Choice &c, int n)
{
    std::vector<int> p(n);
    for (int i = 0; i < n; ++i) p[i] = i;
    for (int i = 0; i + 1 < n; ++i) { int j = i + (int)c.below((unsigned)(n - i)); std::swap(p[i], p[j]); }
    return p;
}

inline int gen_size(Choice &c, int tier, int cap_quick = 14, int cap_thorough = 60)
{
    static const uint8_t tab[32] = {1, 2, 3, 4, 5, 6, 7, 8, 2, 3, 4, 5, 6, 7, 8, 9, 10, 11, 12, 13, 14, 3, 4, 5, 6, 4, 5, 6, 7, 8, 9, 10};
    unsigned b = c.u8();
    int n;
    if (tier > 0 && b >= 208) n = 15 + (int)(c.u8() % (unsigned)(cap_thorough - 14));
    else n = tab[b % 32];
    int cap = tier > 0 ? cap_thorough : cap_quick;
    if (n > cap) n = 1 + n % cap;
    return n;
}

inline int zigzag(unsigned b, int K)
{
    unsigned z = b % (unsigned)(2 * K + 1);
    return (z & 1) ? (int)((z + 1) / 2) : -(int)(z / 2);
}

enum PatMode { PAT_NONSING = 0, PAT_ANY = 1, PAT_SINGULAR = 2 };

// Pattern families.  Returns per-column sorted row lists for an m x n matrix (m >= n for
// PAT_NONSING, where a transversal covering all n columns is planted).
inline std::vector<std::vector<int>> gen_pattern(Choice &c, int m, int n, PatMode mode, std::string &family)
{
    std::vector<std::vector<uint8_t>> P(n, std::vector<uint8_t>(m, 0));
    auto set = [&](int i, int j) { if (i >= 0 && i < m && j >= 0 && j < n) P[j][i] = 1; };
    unsigned fam;
    if (mode == PAT_SINGULAR) { static const unsigned w[] = {0,0,0,0,0,0,0,0,0,0,0, 6, 5, 0, 5}; fam = c.weighted(w); }
    else if (mode == PAT_ANY) { static const unsigned w[] = {4,3,3,2,3,1,1,2,1,2,2, 3, 2, 2, 2}; fam = c.weighted(w); }
    else { static const unsigned w[] = {5,4,4,3,4,2,2,3,1,2,2, 0, 0, 3, 0}; fam = c.weighted(w); }
    bool plant = (mode == PAT_NONSING);
    int mn = std::min(m, n);
    switch (fam) {
    case 0: {  // random sparse columns
        family = "random";
        int maxc = 1 + (int)c.below(5);
        for (int j = 0; j < n; ++j) { int k = (int)c.below((unsigned)maxc + 1); for (int t = 0; t < k; ++t) set((int)c.below((unsigned)m), j); }
        if (mode == PAT_ANY && c.chance(128)) plant = true;
        break; }
    case 1: {  // diagonal plus random off-diagonals
        family = "diag+rand";
        for (int j = 0; j < mn; ++j) set(j, j);
        int k = (int)c.below((unsigned)(2 * n + 1));
        for (int t = 0; t < k; ++t) { int i = (int)c.below((unsigned)m), j = (int)c.below((unsigned)n); set(i, j); }
        break; }
    case 2: {  // banded
        family = "banded";
        int kl = (int)c.below(4), ku = (int)c.below(4);
        unsigned drop = c.below(3) * 40;
        for (int j = 0; j < n; ++j) for (int i = j - ku; i <= j + kl; ++i) if (i == j || drop == 0 || !c.chance(drop)) set(i, j);
        break; }
    case 3: {  // arrow
        family = "arrow";
        unsigned which = 1 + c.below(15);
        for (int j = 0; j < mn; ++j) set(j, j);
        if (which & 1) for (int j = 0; j < n; ++j) set(0, j);
        if (which & 2) for (int i = 0; i < m; ++i) set(i, 0);
        if (which & 4) for (int j = 0; j < n; ++j) set(m - 1, j);
        if (which & 8) for (int i = 0; i < m; ++i) set(i, n - 1);
        break; }
    case 4: {  // block diagonal with dense blocks (wide supernodes), optional coupling
        family = "blockdiag";
        int j = 0;
        while (j < n) {
            int w = 2 + (int)c.below(7);
            if (j + w > n) w = n - j;
            for (int a = j; a < j + w; ++a) for (int b = j; b < j + w; ++b) set(a, b);
            j += w;
        }
        int k = (int)c.below((unsigned)n + 1);
        for (int t = 0; t < k; ++t) set((int)c.below((unsigned)m), (int)c.below((unsigned)n));
        if (m > n) for (int i = n; i < m; ++i) if (c.chance(128)) set(i, (int)c.below((unsigned)n));
        break; }
    case 5: {  // lower triangular, dense-ish
        family = "lower";
        unsigned dens = 64 + c.below(4) * 64;
        for (int j = 0; j < n; ++j) for (int i = j; i < m; ++i) if (i == j || c.chance(dens)) set(i, j);
        break; }
    case 6: {  // upper triangular
        family = "upper";
        unsigned dens = 64 + c.below(4) * 64;
        for (int j = 0; j < n; ++j) for (int i = 0; i <= std::min(j, m - 1); ++i) if (i == j || c.chance(dens)) set(i, j);
        break; }
    case 7: {  // fully dense
        family = "dense";
        for (int j = 0; j < n; ++j) for (int i = 0; i < m; ++i) set(i, j);
        break; }
    case 8: {  // permutation
        family = "perm";
        plant = true;
        break; }
    case 9: {  // 5-point grid Laplacian on an r x s grid with r*s = n (falls back to a path)
        family = "grid";
        int r = 1; for (int t = 2; t * t <= n; ++t) if (n % t == 0) r = t;
        int s = n / r;
        for (int a = 0; a < r; ++a) for (int b = 0; b < s; ++b) {
            int k = a * s + b; set(k, k);
            if (a > 0) set(k - s, k); if (a + 1 < r) set(k + s, k);
            if (b > 0) set(k - 1, k); if (b + 1 < s) set(k + 1, k);
        }
        break; }
    case 10: {  // chains: bidiagonal, long etree paths
        family = "chain";
        bool low = c.chance(128);
        for (int j = 0; j < mn; ++j) { set(j, j); if (low) set(j + 1, j); else set(j - 1, j); }
        if (c.chance(100)) set(m - 1, 0);
        if (c.chance(100)) set(0, n - 1);
        break; }
    case 11: {  // empty rows / columns
        family = "empty-rowcol";
        unsigned dens = 64 + c.below(3) * 64;
        for (int j = 0; j < n; ++j) for (int i = 0; i < m; ++i) if (i == j || c.chance(dens)) set(i, j);
        int k = 1 + (int)c.below(2);
        for (int t = 0; t < k; ++t) {
            bool row = c.chance(128); int idx = (int)c.below((unsigned)(row ? m : n));
            if (row) { for (int j = 0; j < n; ++j) P[j][idx] = 0; } else { for (int i = 0; i < m; ++i) P[idx][i] = 0; }
        }
        break; }
    case 12: {  // Hall violation: k columns supported on k-1 rows, no empty row/column intended
        family = "hall";
        for (int j = 0; j < mn; ++j) set(j, j);
        int k = 2 + (int)c.below((unsigned)std::max(1, std::min(n - 1, 4)));
        if (k > n) k = n;
        std::vector<int> cp = gen_perm(c, n), rp = gen_perm(c, m);
        // columns cp[0..k) get support only in rows rp[0..k-1)
        for (int t = 0; t < k; ++t) {
            int j = cp[t];
            for (int i = 0; i < m; ++i) P[j][i] = 0;
            if (k > 1) { set(rp[t % (k - 1)], j); if (c.chance(128)) set(rp[(t + 1) % (k - 1)], j); }
        }
        int e = (int)c.below((unsigned)n + 1);
        for (int t = 0; t < e; ++t) { int i = (int)c.below((unsigned)m), j = (int)c.below((unsigned)n); bool in = false; for (int q = 0; q < k; ++q) if (cp[q] == j) in = true; if (!in) set(i, j); }
        break; }
    case 13: {  // zero diagonal with an off-diagonal matching (cyclic shift) plus random entries
        family = "zerodiag";
        int sh = 1 + (int)c.below((unsigned)std::max(1, mn - 1));
        for (int j = 0; j < mn; ++j) set((j + sh) % mn, j);
        int k = (int)c.below((unsigned)n + 1);
        for (int t = 0; t < k; ++t) { int i = (int)c.below((unsigned)m), j = (int)c.below((unsigned)n); if (i != j) set(i, j); }
        break; }
    default: {  // 14: duplicate-structure columns / rank-deficient by structure with few rows used
        family = "fewrows";
        int r = 1 + (int)c.below((unsigned)std::max(1, mn - 1));
        std::vector<int> rp = gen_perm(c, m);
        for (int j = 0; j < n; ++j) { int k = 1 + (int)c.below(3); for (int t = 0; t < k; ++t) set(rp[c.below((unsigned)r)], j); }
        break; }
    }
    if (plant) {
        std::vector<int> rp = gen_perm(c, m);
        for (int j = 0; j < mn; ++j) set(rp[j], j);
        if (family != "perm") family += "+transversal";
    }
    std::vector<std::vector<int>> out(n);
    for (int j = 0; j < n; ++j) for (int i = 0; i < m; ++i) if (P[j][i]) out[j].push_back(i);
    return out;
}

// --- values ----------------------------------------------------------------
struct ValGen {
    int kind;        // 0 ints, 1 uniform, 2 pow2, 3 ints+scaling, 4 diag dominant, 5 uniform+scaling, 6 graded
    int cmode;       // complex: 0 independent, 1 purely real, 2 purely imaginary, 3 |re|=|im| ties
    int expK;        // scaling exponent range
    bool explicit_zero;
    double one(Choice &c, int k) {
        switch (k) {
        case 0: { static const int t[8] = {1, -1, 2, -2, 3, -3, 1, 2}; unsigned b = c.u8(); if (explicit_zero && b >= 250) return 0.0; return t[b % 8]; }
        case 2: { static const int t[9] = {0, 1, -1, 2, -2, 3, -3, 4, -4}; unsigned b = c.u8(); double v = std::ldexp(1.0, t[(b >> 1) % 9]); return (b & 1) ? -v : v; }
        default: { int v = (int)(c.u16() ^ 0x8000u) - 32768; if (v == 0) v = 32768; return v / 32768.0; }
        }
    }
    Val value(Choice &c, bool cplx) {
        int k = (kind == 0 || kind == 3 || kind == 4) ? 0 : (kind == 2 ? 2 : 1);
        Val v; v.re = one(c, k); v.im = 0;
        if (cplx) {
            switch (cmode) {
            case 0: v.im = one(c, k); break;
            case 1: break;
            case 2: v.im = v.re; v.re = 0; break;
            default: v.im = c.chance(128) ? v.re : -v.re; break;
            }
        }
        return v;
    }
};

inline const char *vkind_name(int k)
{
    static const char *n[] = {"ints", "uniform", "pow2", "ints+scaled", "diagdom", "uniform+scaled", "graded"};
    return n[k];
}

// Fill values for a pattern.  single: limit scaling exponents for single precision.
inline GMat gen_values(Choice &c, int m, int n, const std::vector<std::vector<int>> &pat, bool cplx, bool single,
                       const std::string &family, bool allow_explicit_zero = true)
{
    GMat A; A.m = m; A.n = n; A.col.resize(n); A.family = family;
    ValGen g;
    static const unsigned w[] = {5, 5, 2, 3, 3, 3, 2};
    g.kind = (int)c.weighted(w);
    g.cmode = cplx ? (int)c.below(4) : 1;
    g.expK = single ? 12 : 40;
    g.explicit_zero = allow_explicit_zero && c.chance(40);
    A.vkind = vkind_name(g.kind);
    if (cplx) { static const char *cm[] = {"", "/real", "/imag", "/tie"}; A.vkind += cm[g.cmode]; }
    for (int j = 0; j < n; ++j) for (int i : pat[j]) A.col[j].push_back({i, g.value(c, cplx)});
    if (g.kind == 3 || g.kind == 5) {
        int K = 1 + (int)c.below((unsigned)g.expK);
        std::vector<int> rs(m), cs(n);
        unsigned which = 1 + c.below(3);
        for (int i = 0; i < m; ++i) rs[i] = (which & 1) ? zigzag(c.u8(), K) : 0;
        for (int j = 0; j < n; ++j) cs[j] = (which & 2) ? zigzag(c.u8(), K) : 0;
        for (int j = 0; j < n; ++j) for (auto &e : A.col[j]) { e.second.re = std::ldexp(e.second.re, rs[e.first] + cs[j]); e.second.im = std::ldexp(e.second.im, rs[e.first] + cs[j]); }
    } else if (g.kind == 6) {
        int gr = 1 + (int)c.below(3), gc = (int)c.below(3);
        for (int j = 0; j < n; ++j) for (auto &e : A.col[j]) { int s = -(gr * e.first) - gc * j; if (single && s < -20) s = -20; if (s < -60) s = -60; e.second.re = std::ldexp(e.second.re, s); e.second.im = std::ldexp(e.second.im, s); }
    } else if (g.kind == 4) {
        // column diagonal dominance: diagonal entry (if present) = 1 + sum of |other entries|
        for (int j = 0; j < n; ++j) {
            double s = 1; for (auto &e : A.col[j]) if (e.first != j) s += std::fabs(e.second.re) + std::fabs(e.second.im);
            for (auto &e : A.col[j]) if (e.first == j) { e.second.re = (e.second.re < 0 ? -s : s); if (cplx && g.cmode == 2) { e.second.im = e.second.re; e.second.re = 0; } else e.second.im = 0; }
        }
    }
    return A;
}

// --- options and tuning ----------------------------------------------------
struct Tuning { int v[8]; bool stock; };
struct Opts {
    colperm_t colperm = NATURAL;
    double u = 1.0;
    bool symmetric = false;
    bool equil = false;
    trans_t trans = NOTRANS;
    IterRefine_t refine = NOREFINE;
    bool pivgrowth = false, condnum = false;
    bool nr = false;            // SLU_NR storage
    bool shuffle_rows = false;  // unsorted row indices within columns
    Tuning tune;
    std::vector<int> my_perm_c; // for MY_PERMC
};

inline Tuning gen_tuning(Choice &c)
{
    Tuning t;
    t.stock = false;
    unsigned b = c.u8();
    if (b == 0 || b >= 240) {  // zero byte: the TESTING suite's small tuning (simplest); high: stock
        t.stock = (b >= 240);
        t.v[0] = t.stock; t.v[1] = 2; t.v[2] = 1; t.v[3] = 3; t.v[4] = 2; t.v[5] = 2; t.v[6] = 5; t.v[7] = 3;
        if (t.stock) { t.v[1] = 20; t.v[2] = 10; t.v[3] = 200; t.v[4] = 200; t.v[5] = 100; t.v[6] = 30; t.v[7] = 10; }
        return t;
    }
    t.v[0] = 0;
    t.v[1] = 1 + (int)(b % 8);                      // panel
    t.v[2] = 1 + (int)c.below(8);                   // relax
    t.v[3] = t.v[2] + (int)c.below((unsigned)(12 - t.v[2] + 1));  // maxsuper in relax..12
    t.v[4] = 1 + (int)c.below(8);                   // rowblk
    t.v[5] = 1 + (int)c.below(8);                   // colblk
    static const int fills[] = {5, 1, 2, 3, 20, 30, 1, 2};
    t.v[6] = fills[c.below(8)];
    t.v[7] = t.v[2] + (int)c.below((unsigned)(12 - t.v[2] + 1));  // ilu maxsuper in relax..12
    return t;
}

inline std::string tuning_str(const Tuning &t)
{
    if (t.stock) return "stock";
    return fmt("panel=%d relax=%d maxsuper=%d rowblk=%d colblk=%d fill=%d ilu_maxsuper=%d", t.v[1], t.v[2], t.v[3], t.v[4], t.v[5], t.v[6], t.v[7]);
}

inline double gen_thresh(Choice &c, bool single, int n)
{
    static const double us[] = {1.0, 0.5, 0.1, 0.01, 1e-3, 1e-8, 1.0, 0.5};
    double u = us[c.below(8)];
    if (single && n > 8 && u < 0.01) u = 0.01;
    return u;
}

inline const char *colperm_name(colperm_t p)
{
    switch (p) { case NATURAL: return "NATURAL"; case MMD_ATA: return "MMD_ATA"; case MMD_AT_PLUS_A: return "MMD_AT_PLUS_A"; case COLAMD: return "COLAMD"; case MY_PERMC: return "MY_PERMC"; default: return "?"; }
}

inline colperm_t gen_colperm(Choice &c, bool square)
{
    static const colperm_t t[] = {NATURAL, COLAMD, MMD_ATA, MMD_AT_PLUS_A, MY_PERMC, COLAMD, MMD_ATA, NATURAL};
    colperm_t p = t[c.below(8)];
    if (!square && p == MMD_AT_PLUS_A) p = MMD_ATA;
    return p;
}

// Options common to the drivers; `expert` adds Equil/Trans/Refine/...
inline Opts gen_opts(Choice &c, int n, bool single, bool square, bool expert)
{
    Opts o;
    o.colperm = gen_colperm(c, square);
    o.u = gen_thresh(c, single, n);
    unsigned f = c.u8();
    o.symmetric = (f & 1) && square;
    o.nr = (f & 2) != 0;
    o.shuffle_rows = (f & 4) != 0;
    if (expert) {
        o.equil = (f & 8) != 0;
        o.trans = (trans_t)((f >> 4) % 3);
        unsigned g = c.u8();
        o.refine = (IterRefine_t)(g % 4);
        o.pivgrowth = (g & 4) != 0;
        o.condnum = (g & 8) != 0;
    }
    o.tune = gen_tuning(c);
    if (o.colperm == MY_PERMC) o.my_perm_c = gen_perm(c, n);
    return o;
}

inline std::string opts_str(const Opts &o, bool expert)
{
    std::string s = fmt("ColPerm=%s u=%g Symmetric=%d storage=%s rows=%s", colperm_name(o.colperm), o.u, (int)o.symmetric, o.nr ? "NR" : "NC", o.shuffle_rows ? "shuffled" : "sorted");
    if (expert) s += fmt(" Equil=%d Trans=%d Refine=%d PivotGrowth=%d CondNum=%d", (int)o.equil, (int)o.trans, (int)o.refine, (int)o.pivgrowth, (int)o.condnum);
    s += " tuning{" + tuning_str(o.tune) + "}";
    if (o.colperm == MY_PERMC) s += " perm_c_in=" + vec_str(o.my_perm_c);
    return s;
}

inline void apply_opts(const Opts &o, superlu_options_t &so)
{
    so.ColPerm = o.colperm;
    so.DiagPivotThresh = o.u;
    so.SymmetricMode = o.symmetric ? YES : NO;
    so.Equil = o.equil ? YES : NO;
    so.Trans = o.trans;
    so.IterRefine = o.refine;
    so.PivotGrowth = o.pivgrowth ? YES : NO;
    so.ConditionNumber = o.condnum ? YES : NO;
    so.PrintStat = NO;
}

inline void apply_tuning(const Tuning &t)
{
    for (int i = 0; i < 8; ++i) vf_tune[i] = t.v[i];
}

// --- incomplete-LU options -----------------------------------------------------
struct IluOpts { int droprule = 0; double droptol = 1e-4, fillfactor = 10, filltol = 1e-2; norm_t norm = INF_NORM; milu_t milu = SILU; rowperm_t rowperm = NOROWPERM; };

inline IluOpts gen_ilu_opts(Choice &c)
{
    IluOpts o;
    static const int rules[] = {DROP_BASIC | DROP_AREA, NODROP, DROP_BASIC, DROP_BASIC | DROP_PROWS, DROP_BASIC | DROP_COLUMN, DROP_BASIC | DROP_AREA, DROP_BASIC | DROP_PROWS, NODROP};
    unsigned b = c.u8();
    o.droprule = rules[b % 8];
    if (o.droprule != NODROP) { if (b & 8) o.droprule |= DROP_DYNAMIC; if ((b & 16) && (o.droprule & DROP_SECONDARY)) o.droprule |= DROP_INTERP; }
    static const double tols[] = {1e-4, 0.0, 1e-8, 1e-2, 0.1, 0.5, 1e-3, 0.0};
    o.droptol = tols[c.below(8)];
    static const double ffs[] = {10, 1, 2, 3, 5, 20, 1.5, 10};
    o.fillfactor = ffs[c.below(8)];
    static const double fts[] = {1e-2, 1.0, 1e-4, 1e-8, 0.5, 1e-2, 1e-1, 1e-6};
    o.filltol = fts[c.below(8)];
    unsigned g = c.u8();
    o.norm = (norm_t)(2 - (g % 3));       // zero byte -> INF_NORM
    o.milu = (milu_t)((g >> 2) % 4);
    o.rowperm = ((g >> 4) & 1) ? LargeDiag_MC64 : NOROWPERM;
    return o;
}

// Known finding F-ILU-WORK2: a secondary dropping rule without DROP_INTERP overruns an n-entry scratch array; interpolate while it is open.
inline void route_ilu(IluOpts &io, Ctx &cx)
{
    if ((io.droprule & DROP_SECONDARY) && !(io.droprule & DROP_INTERP) && cx.is_known("F-ILU-WORK2")) { cx.exclude("F-ILU-WORK2"); io.droprule |= DROP_INTERP; }
}

inline std::string ilu_str(const IluOpts &o)
{
    return fmt("DropRule=0x%x DropTol=%g FillFactor=%g FillTol=%g Norm=%d MILU=%d RowPerm=%s", o.droprule, o.droptol, o.fillfactor, o.filltol, (int)o.norm, (int)o.milu, o.rowperm == LargeDiag_MC64 ? "MC64" : "NO");
}

inline void apply_ilu(const IluOpts &o, superlu_options_t &so)
{
    so.ILU_DropRule = o.droprule; so.ILU_DropTol = o.droptol; so.ILU_FillFactor = o.fillfactor; so.ILU_FillTol = o.filltol;
    so.ILU_Norm = o.norm; so.ILU_MILU = o.milu; so.RowPerm = o.rowperm;
}

// --- concrete storage --------------------------------------------------------
template <class T> inline T to_T(const Val &v);
template <> inline float to_T<float>(const Val &v) { return (float)v.re; }
template <> inline double to_T<double>(const Val &v) { return v.re; }
template <> inline cfloat to_T<cfloat>(const Val &v) { return cfloat((float)v.re, (float)v.im); }
template <> inline cdouble to_T<cdouble>(const Val &v) { return cdouble(v.re, v.im); }

// Compressed storage of an m x n matrix: by columns (ptr has n+1 entries, idx = row) or,
// for `byrow`, by rows (ptr has m+1 entries, idx = column).
template <class T> struct Comp {
    int m = 0, n = 0; bool byrow = false;
    std::vector<int_t> ptr, idx;
    std::vector<T> val;
    int_t nnz() const { return (int_t)idx.size(); }
};

// Build compressed storage from the logical matrix.  `shuffle` permutes the order of the
// entries inside each column/row deterministically from `sh` (Choice), if given.
template <class T> inline Comp<T> to_comp(const GMat &A, bool byrow, Choice *sh = nullptr)
{
    Comp<T> S; S.m = A.m; S.n = A.n; S.byrow = byrow;
    int outer = byrow ? A.m : A.n;
    std::vector<std::vector<std::pair<int, T>>> lists(outer);
    for (int j = 0; j < A.n; ++j) for (auto &e : A.col[j]) {
        if (byrow) lists[e.first].push_back({j, to_T<T>(e.second)}); else lists[j].push_back({e.first, to_T<T>(e.second)});
    }
    S.ptr.assign(outer + 1, 0);
    S.idx.reserve(8); S.val.reserve(8);     // an empty matrix still hands the library non-null arrays, as a real caller's malloc would
    for (int k = 0; k < outer; ++k) {
        auto &l = lists[k];
        if (sh && l.size() > 1) { for (size_t i = 0; i + 1 < l.size(); ++i) { size_t j = i + sh->below((unsigned)(l.size() - i)); std::swap(l[i], l[j]); } }
        for (auto &e : l) { S.idx.push_back(e.first); S.val.push_back(e.second); }
        S.ptr[k + 1] = (int_t)S.idx.size();
    }
    return S;
}

inline std::string gmat_str(const GMat &A, bool cplx)
{
    std::string s = fmt("A %dx%d nnz=%ld family=%s values=%s\n", A.m, A.n, A.nnz(), A.family.c_str(), A.vkind.c_str());
    for (int j = 0; j < A.n; ++j) {
        s += fmt("  col %d:", j);
        for (auto &e : A.col[j]) s += cplx ? fmt(" (%d: %.17g%+.17gi)", e.first, e.second.re, e.second.im) : fmt(" (%d: %.17g)", e.first, e.second.re);
        s += "\n";
    }
    return s;
}

}  // namespace vf
