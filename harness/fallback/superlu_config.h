
#ifndef SUPERLU_CONFIG_H
#define SUPERLU_CONFIG_H

/* Enable metis */
/* #undef HAVE_METIS */

/* Enable colamd */
/* #undef HAVE_COLAMD */

/* enable 64bit index mode */
/* #undef XSDK_INDEX_SIZE */

/* Integer type for indexing sparse matrix meta structure */
#if defined(XSDK_INDEX_SIZE) && (XSDK_INDEX_SIZE == 64)
#include <stdint.h>
#define _LONGINT 1
typedef int64_t int_t;
#else
typedef int int_t; /* default */
#endif

#endif /* SUPERLU_CONFIG_H */

