// Front end: rapidcheck search (engine E1), replay of saved cases, one-shot runs.
//   prop --rc --type d [--tier quick|thorough] [--stats F] [--scratch F] [--known a,b] [--budget S] [--samples K]
//   prop --replay FILE [--known a,b]        exit 0 = held, 1 = violated
//   prop --one TYPE HEX [--dump] [--known a,b]
#include <rapidcheck.h>
#include "front.hpp"
#include "ledger.h"
#include "isolate.hpp"
#include <iostream>
#include <fstream>
#include <sstream>

using namespace vf;

static Runner *g_runner = nullptr;
static int g_out_fd = 2;

extern "C" void __sanitizer_set_death_callback(void (*)(void)) __attribute__((weak));

static void death_cb() { if (g_runner && !vf::in_child()) g_runner->write_stats("crashed"); }
static void alarm_cb(int) { if (g_runner) g_runner->write_stats("hang"); _exit(3); }

static void say(const std::string &s) { ssize_t w = write(g_out_fd, s.data(), s.size()); (void)w; }

static std::set<std::string> split_set(const std::string &s)
{
    std::set<std::string> r; std::string cur;
    for (char ch : s) { if (ch == ',') { if (!cur.empty()) r.insert(cur); cur.clear(); } else cur += ch; }
    if (!cur.empty()) r.insert(cur);
    return r;
}

int main(int argc, char **argv)
{
    Runner R; g_runner = &R;
    std::string mode, replay_path, one_hex; char type = 'd'; bool dump = false, verbose = false;
    for (int i = 1; i < argc; ++i) {
        std::string a = argv[i];
        auto next = [&]() -> std::string { return i + 1 < argc ? std::string(argv[++i]) : std::string(); };
        if (a == "--rc") mode = "rc";
        else if (a == "--replay") { mode = "replay"; replay_path = next(); }
        else if (a == "--one") { mode = "one"; type = next()[0]; one_hex = next(); }
        else if (a == "--type") type = next()[0];
        else if (a == "--tier") { std::string t = next(); R.cx.tier = (t.rfind("thorough", 0) == 0) ? 1 : 0; R.cx.tailmode = t.size() > 5 && t.compare(t.size() - 5, 5, "+tail") == 0; }
        else if (a == "--stats") R.stats_path = next();
        else if (a == "--scratch") R.scratch_path = next();
        else if (a == "--known") R.cx.known = split_set(next());
        else if (a == "--budget") R.budget = atof(next().c_str());
        else if (a == "--samples") R.st.max_samples = (size_t)atoi(next().c_str());
        else if (a == "--alarm") R.case_alarm = (unsigned)atoi(next().c_str());
        else if (a == "--fill") R.cx.fill_override = (int)strtol(next().c_str(), nullptr, 16);
        else if (a == "--dump") dump = true;
        else if (a == "--verbose") verbose = true;
        else if (a == "--info") { printf("%s\n%s\n%s\n", vf_prop.id, vf_prop.types, vf_prop.rule); return 0; }
    }
    // The library prints progress and error text on stdout/stderr; keep our own channel.
    g_out_fd = dup(1);
    if (!verbose) { int nul = open("/dev/null", O_WRONLY); if (nul >= 0) { dup2(nul, 1); if (mode == "rc") { /* rapidcheck reports on stderr: keep */ } close(nul); } }
    if (__sanitizer_set_death_callback) __sanitizer_set_death_callback(death_cb);
    signal(SIGALRM, alarm_cb);
    if (!R.scratch_path.empty()) R.scratch_fd = open(R.scratch_path.c_str(), O_CREAT | O_WRONLY | O_TRUNC, 0644);

    if (mode == "one" || mode == "replay") {
        std::vector<uint8_t> bytes;
        if (mode == "replay") {
            std::ifstream f(replay_path); std::string line; bool got = false;
            while (std::getline(f, line)) {
                if (line.rfind("type:", 0) == 0) { size_t p = line.find_first_not_of(" \t", 5); if (p != std::string::npos) type = line[p]; }
                else if (line.rfind("bytes:", 0) == 0) { size_t p = line.find_first_not_of(" \t", 6); bytes = from_hex(p == std::string::npos ? "" : line.substr(p)); got = true; }
            }
            if (!got) { say("RESULT error no bytes line in replay file\n"); return 2; }
        } else bytes = from_hex(one_hex);
        R.cx.dump = dump || mode == "replay";
        if (R.cx.dump) R.cx.dump_fd = g_out_fd;
        bool ok = R.run_case(type, bytes.data(), bytes.size(), false);
        if (ok) {
            std::string labs; for (auto &l : R.cx.labels) labs += l + " ";
            say(fmt("RESULT %s nontrivial=%d hash=%016llx %s labels: %s\n", R.cx.skipped ? "skip" : "pass", (int)R.cx.nontrivial, (unsigned long long)R.cx.hash, R.cx.skipped ? R.cx.skip_reason.c_str() : "", labs.c_str()));
            return 0;
        }
        say(fmt("RESULT fail oracle=%s msg=%s\n", R.cx.oracle.c_str(), R.cx.msg.c_str()));
        return 1;
    }
    if (mode != "rc") { say("usage: --rc | --replay FILE | --one TYPE HEX\n"); return 2; }

    const char t = type;
    bool ok = rc::check(std::string(vf_prop.id), [&]() {
        if (R.budget > 0 && R.searching && R.elapsed() > R.budget) { R.st.budget_skipped++; return; }
        // bound the shrink phase: once exhausted every further candidate "passes", which ends rapidcheck's search
        if (!R.searching) { if (R.shrink_t0 < 0) R.shrink_t0 = R.elapsed(); if (R.st.shrink_evals > 4000 || R.elapsed() - R.shrink_t0 > 25) return; }
        auto bytes = *rc::gen::container<std::vector<uint8_t>>(rc::gen::resize(rc::kNominalSize, rc::gen::arbitrary<uint8_t>()));
        bool held = R.run_case(t, bytes.data(), bytes.size());
        RC_ASSERT(held);
    });
    if (!ok && R.st.last_fail.present) {
        R.st.last_fail.desc = R.describe(R.st.last_fail.type, R.st.last_fail.bytes);
        R.st.first_fail.desc = R.describe(R.st.first_fail.type, R.st.first_fail.bytes);
    }
    R.write_stats("done");
    return ok ? 0 : 1;
}
