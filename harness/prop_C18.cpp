// C18 - illegal arguments are rejected with the documented negative info, nothing modified, nothing retained.
#include "expert.hpp"

namespace vf {

struct Snap {
    std::vector<std::pair<const void *, std::vector<unsigned char>>> items;
    std::vector<std::string> names;
    void add(const char *name, const void *p, size_t bytes) { if (!p || !bytes) return; const unsigned char *b = (const unsigned char *)p; items.push_back({p, std::vector<unsigned char>(b, b + bytes)}); names.push_back(name); }
    const char *changed() const { for (size_t i = 0; i < items.size(); ++i) if (std::memcmp(items[i].first, items[i].second.data(), items[i].second.size()) != 0) return names[i].c_str(); return nullptr; }
};

enum Routine { R_GSSV, R_GSSVX, R_GSISX, R_GSTRS, R_GSRFS, R_GSCON, R_GSEQU, R_TRSV, R_GEMV, R_COUNT };
static const char *rname[] = {"gssv", "gssvx", "gsisx", "gstrs", "gsrfs", "gscon", "gsequ", "sp_trsv", "sp_gemv"};

// corruption kinds applied to a SuperMatrix argument
enum MatBad { MB_NONSQUARE, MB_NEGDIM, MB_STYPE, MB_DTYPE, MB_MTYPE, MB_LDA, MB_NEGCOL, MB_COUNT };
static const char *mbname[] = {"non-square", "negative-dimension", "wrong-Stype", "wrong-Dtype", "wrong-Mtype", "lda<n", "ncol<0"};

template <class T> static bool corrupt_matrix(SuperMatrix *M, int kind, int n)
{
    switch (kind) {
    case MB_NONSQUARE: M->ncol = M->ncol + 1; return true;
    case MB_NEGDIM: M->nrow = -1; M->ncol = -1; return true;
    case MB_STYPE: M->Stype = (M->Stype == SLU_NCP ? SLU_DN : SLU_NCP); return true;
    case MB_DTYPE: M->Dtype = (M->Dtype == SLU_D ? SLU_S : (M->Dtype == SLU_S ? SLU_D : (M->Dtype == SLU_Z ? SLU_C : SLU_Z))); return true;
    case MB_MTYPE: M->Mtype = (M->Mtype == SLU_SYL ? SLU_HEL : SLU_SYL); return true;
    case MB_LDA: if (M->Stype != SLU_DN || n < 1) return false; ((DNformat *)M->Store)->lda = n - 1; return true;   // also with no columns: ?gssv, ?gstrs and ?gsrfs test the leading dimension whatever ncol is
    case MB_NEGCOL: if (M->Stype != SLU_DN) return false; M->ncol = -1; return true;
    }
    return false;
}

template <class T> static void run_T(Choice &c, Ctx &cx)
{
    typedef typename Tr<T>::R R;
    const bool cplx = Tr<T>::is_complex, single = sizeof(R) == 4;
    int n = 1 + (int)c.below(8);
    std::string family;
    auto pat = gen_pattern(c, n, n, PAT_NONSING, family);
    GMat G = gen_values(c, n, n, pat, cplx, single, family, false);
    // a comfortably nonsingular base: make it column diagonally dominant after planting the diagonal
    for (int j = 0; j < n; ++j) { bool has = false; double s = 1; for (auto &e : G.col[j]) { if (e.first == j) has = true; else s += std::fabs(e.second.re) + std::fabs(e.second.im); } if (!has) { G.col[j].push_back({j, Val{0, 0}}); std::sort(G.col[j].begin(), G.col[j].end(), [](const std::pair<int, Val> &a, const std::pair<int, Val> &b) { return a.first < b.first; }); } for (auto &e : G.col[j]) if (e.first == j) { e.second.re = s; e.second.im = 0; } }
    Opts o = gen_opts(c, n, single, true, true);
    o.u = 1.0; o.refine = NOREFINE; o.condnum = false; o.pivgrowth = false;
    if (cplx && o.nr && o.trans == CONJ) o.trans = TRANS;
    int nrhs; { unsigned v = c.u8(); nrhs = v >= 208 ? 0 : 1 + (int)(v % 2); }   // 0 right-hand sides is a valid base call too (quick-return paths must not skip the argument tests)
    unsigned routine = c.below(R_COUNT);
    unsigned ck = c.u8();
    cx.hash = fnv1a(c.d, c.consumed(), 0xC18ULL ^ ((uint64_t)Tr<T>::letter << 32));
    vf_case_begin(cx.fill(0xA5));
    apply_tuning(o.tune);
    // ---- valid base: a fresh factorization through the expert driver ------------------------------
    Expert<T> e; e.init(n, nrhs, n, n);
    bool ilu = routine == R_GSISX; e.ilu = ilu;
    e.S = to_comp<T>(G, (routine == R_GSSV || routine == R_GSSVX || routine == R_GSISX) ? o.nr : false, nullptr);
    e.B = gen_rhs<T>(c, n, nrhs, n, cplx);
    if (ilu) ilu_set_default_options(&e.so);
    apply_opts(o, e.so);
    if (ilu) { e.so.IterRefine = NOREFINE; e.so.RowPerm = NOROWPERM; e.so.ILU_DropRule = NODROP; }
    e.so.ColPerm = o.colperm == MY_PERMC ? NATURAL : o.colperm;
    e.bind();
    if (e.call() || !(e.info == 0)) { cx.label("base-call-not-clean"); if (!e.aborted) e.teardown(); vf_purge(); return; }
    long live_before = vf_live_blocks();

    std::string what; long long got = 0, want = 0; bool applicable = true; const char *fact_note = "";
    // argument objects that corruptions act on (copies of the structs so the originals stay valid for teardown)
    SuperMatrix A = e.A.A, B = e.Bv.X, X = e.Xv.X, L = e.L, U = e.U;
    DNformat Bs = *(DNformat *)B.Store, Xs = *(DNformat *)X.Store; B.Store = &Bs; X.Store = &Xs;
    superlu_options_t so = e.so;
    char equed[2] = {e.equed[0], 0};
    std::vector<R> Rs = e.Rs, Cs = e.Cs, ferr(nrhs + 1), berr(nrhs + 1);
    for (auto &v : Rs) if (!(v > 0)) v = 1; for (auto &v : Cs) if (!(v > 0)) v = 1;
    int_t lwork = 0; int_t info = -999; int iinfo = -999;
    std::vector<T> xvec(n, T(1)), yvec(n, T(1)); if ((int)e.B.size() >= n) xvec.assign(e.B.begin(), e.B.begin() + n);
    R rcond = -1, rpg = -1, anorm = 1, rowcnd = 0, colcnd = 0, amax = 0;
    char norm[2] = {'1', 0}, uplo[2] = {'L', 0}, trans[2] = {'N', 0}, diag[2] = {'U', 0};
    trans_t tr = o.trans;
    int incx = 1, incy = 1;
    // For gstrs/gsrfs/gsequ/gemv the matrix argument must be column storage: the base for those routines is NC
    switch (routine) {
    case R_GSSV: {
        static const int kinds[] = {0, 1, 2, 3, 4, 5, 6, 7, 8, 9, 10, 11};
        int k = kinds[ck % 12];
        so.Fact = DOFACT;
        if (k == 0) { so.Fact = SamePattern; want = -1; what = "Fact=SamePattern"; }
        else if (k == 1) { so.Fact = (fact_t)9; want = -1; what = "Fact=9"; }
        else if (k <= 6) { applicable = corrupt_matrix<T>(&A, k - 2, n); want = -2; what = std::string("A:") + mbname[k - 2]; }
        else { static const int bk[] = {MB_NEGCOL, MB_LDA, MB_STYPE, MB_DTYPE, MB_MTYPE}; applicable = corrupt_matrix<T>(&B, bk[k - 7], n); want = -7; what = std::string("B:") + mbname[bk[k - 7]]; }
        break; }
    case R_GSSVX: case R_GSISX: {
        int k = ck % 22;
        so.Fact = DOFACT;
        if (k == 0) { so.Fact = (fact_t)7; want = -1; what = "Fact=7"; }
        else if (k == 1) { so.Trans = (trans_t)5; want = -1; what = "Trans=5"; }
        else if (k == 2) { so.Equil = (yes_no_t)3; want = -1; what = "Equil=3"; }
        else if (k <= 7) { applicable = corrupt_matrix<T>(&A, k - 3, n); want = -2; what = std::string("A:") + mbname[k - 3]; }
        else if (k == 8) { so.Fact = FACTORED; equed[0] = 'X'; want = -6; what = "equed='X' with FACTORED"; }
        else if (k == 9) { so.Fact = FACTORED; equed[0] = 'R'; Rs[c.below((unsigned)n)] = 0; want = -7; what = "R has a zero with FACTORED"; }
        else if (k == 10) { so.Fact = FACTORED; equed[0] = 'B'; Rs[c.below((unsigned)n)] = (R)-1; want = -7; what = "R has a negative entry with FACTORED"; }
        else if (k == 11) { so.Fact = FACTORED; equed[0] = 'C'; Cs[c.below((unsigned)n)] = 0; want = -8; what = "C has a zero with FACTORED"; }
        else if (k == 12) { lwork = -2; want = -12; what = "lwork=-2"; }
        // with no right-hand side the expert drivers document that B and X are not examined ("no checking if B->ncol=0"),
        // except for a negative column count
        else if (k <= 17) { static const int bk[] = {MB_NEGCOL, MB_LDA, MB_STYPE, MB_DTYPE, MB_MTYPE}; applicable = corrupt_matrix<T>(&B, bk[k - 13], n) && (nrhs > 0 || bk[k - 13] == MB_NEGCOL); want = -13; what = std::string("B:") + mbname[bk[k - 13]]; }
        else if (k <= 20) { static const int xk[] = {MB_LDA, MB_STYPE, MB_DTYPE}; applicable = corrupt_matrix<T>(&X, xk[k - 18], n) && nrhs > 0; want = -14; what = std::string("X:") + mbname[xk[k - 18]]; }
        else { X.ncol = B.ncol + 1; want = -14; what = "X.ncol != B.ncol"; applicable = nrhs > 0; }
        // "an otherwise valid call" includes the calls that re-use what the base call produced: for the late arguments
        // (lwork, B, X) the base is also run with Fact = FACTORED (equed, R, C as returned), SamePattern_SameRowPerm, SamePattern
        if (k >= 12) { static const fact_t fm[] = {DOFACT, FACTORED, SamePattern_SameRowPerm, SamePattern}; static const char *fn[] = {"", " [Fact=FACTORED]", " [Fact=SamePattern_SameRowPerm]", " [Fact=SamePattern]"};
            unsigned f = (ck / 22) % 4; so.Fact = fm[f]; fact_note = fn[f]; if (f) cx.label(std::string("late-argument-with") + fn[f] + (so.Fact == FACTORED ? std::string(" equed=") + equed[0] : std::string())); }
        break; }
    case R_GSTRS: {
        int k = ck % 15;
        if (k == 0) { tr = (trans_t)4; want = -1; what = "trans=4"; }
        else if (k <= 5) { applicable = corrupt_matrix<T>(&L, k - 1, n); want = -2; what = std::string("L:") + mbname[k - 1]; }
        else if (k <= 10) { applicable = corrupt_matrix<T>(&U, k - 6, n); want = -3; what = std::string("U:") + mbname[k - 6]; }
        else { static const int bk[] = {MB_LDA, MB_STYPE, MB_DTYPE, MB_MTYPE}; applicable = corrupt_matrix<T>(&B, bk[k - 11], n); want = -6; what = std::string("B:") + mbname[bk[k - 11]]; }
        break; }
    case R_GSRFS: {
        int k = ck % 24;
        if (k == 0) { tr = (trans_t)4; want = -1; what = "trans=4"; }
        else if (k <= 5) { applicable = corrupt_matrix<T>(&A, k - 1, n); want = -2; what = std::string("A:") + mbname[k - 1]; }
        else if (k <= 10) { applicable = corrupt_matrix<T>(&L, k - 6, n); want = -3; what = std::string("L:") + mbname[k - 6]; }
        else if (k <= 15) { applicable = corrupt_matrix<T>(&U, k - 11, n); want = -4; what = std::string("U:") + mbname[k - 11]; }
        else if (k <= 19) { static const int bk[] = {MB_LDA, MB_STYPE, MB_DTYPE, MB_MTYPE}; applicable = corrupt_matrix<T>(&B, bk[k - 16], n); want = -10; what = std::string("B:") + mbname[bk[k - 16]]; }
        else { static const int bk[] = {MB_LDA, MB_STYPE, MB_DTYPE, MB_MTYPE}; applicable = corrupt_matrix<T>(&X, bk[k - 20], n); want = -11; what = std::string("X:") + mbname[bk[k - 20]]; }
        break; }
    case R_GSCON: {
        int k = ck % 11;
        if (k == 0) { norm[0] = 'F'; want = -1; what = "norm='F'"; }
        else if (k <= 5) { applicable = corrupt_matrix<T>(&L, k - 1, n); want = -2; what = std::string("L:") + mbname[k - 1]; }
        else { applicable = corrupt_matrix<T>(&U, k - 6, n); want = -3; what = std::string("U:") + mbname[k - 6]; }
        break; }
    case R_GSEQU: {
        static const int ak[] = {MB_NEGDIM, MB_STYPE, MB_DTYPE, MB_MTYPE};
        int k = ck % 4; applicable = corrupt_matrix<T>(&A, ak[k], n); want = -1; what = std::string("A:") + mbname[ak[k]];
        break; }
    case R_TRSV: {
        int k = ck % 7;
        if (k == 0) { uplo[0] = 'X'; want = -1; what = "uplo='X'"; }
        else if (k == 1) { trans[0] = 'X'; want = -2; what = "trans='X'"; }
        else if (k == 2) { diag[0] = 'X'; want = -3; what = "diag='X'"; }
        else if (k <= 4) { applicable = corrupt_matrix<T>(&L, k == 3 ? MB_NONSQUARE : MB_NEGDIM, n); want = -4; what = std::string("L:") + (k == 3 ? "non-square" : "negative-dimension"); }
        else { applicable = corrupt_matrix<T>(&U, k == 5 ? MB_NONSQUARE : MB_NEGDIM, n); want = -5; what = std::string("U:") + (k == 5 ? "non-square" : "negative-dimension"); }
        break; }
    default: {   // sp_gemv: errors are reported through input_error only; nothing may be touched
        int k = ck % 4;
        if (k == 0) { trans[0] = 'X'; what = "trans='X'"; }
        else if (k == 1) { A.nrow = -1; what = "A.nrow<0"; }
        else if (k == 2) { incx = 0; what = "incx=0"; }
        else { incy = 0; what = "incy=0"; }
        want = 0;
        break; }
    }
    bool nr_base = e.S.byrow;
    if ((routine == R_GSRFS || routine == R_GSEQU || routine == R_GEMV) && nr_base) applicable = false;
    what += fact_note;
    std::string pair = std::string(rname[routine]) + "/" + what;
    if (cx.dump) { cx.d(fmt("routine=%s corruption=%s expected info=%lld n=%d nrhs=%d", rname[routine], what.c_str(), want, n, nrhs)); cx.d(opts_str(o, true)); cx.d(gmat_str(G, cplx)); }
    if (!applicable) { cx.label("not-applicable"); e.teardown(); ledger_clean(cx, "after the base call"); return; }
    cx.label("pair=" + pair);
    // ---- snapshots of everything the caller owns ---------------------------------------------------
    Snap sn;
    sn.add("A values", e.S.val.data(), e.S.val.size() * sizeof(T)); sn.add("A indices", e.S.idx.data(), e.S.idx.size() * sizeof(int_t)); sn.add("A pointers", e.S.ptr.data(), e.S.ptr.size() * sizeof(int_t));
    sn.add("A struct", &A, sizeof A); sn.add("B struct", &B, sizeof B); sn.add("X struct", &X, sizeof X); sn.add("L struct", &L, sizeof L); sn.add("U struct", &U, sizeof U);
    sn.add("B store", &Bs, sizeof Bs); sn.add("X store", &Xs, sizeof Xs);
    sn.add("B values", e.B.data(), e.B.size() * sizeof(T)); sn.add("X values", e.X.data(), e.X.size() * sizeof(T));
    sn.add("perm_c", e.perm_c.data(), n * sizeof(int)); sn.add("perm_r", e.perm_r.data(), n * sizeof(int)); sn.add("etree", e.etree.data(), n * sizeof(int));
    sn.add("R", Rs.data(), n * sizeof(R)); sn.add("C", Cs.data(), n * sizeof(R)); if (so.Fact == FACTORED) sn.add("equed", equed, 1);   // equed is an output unless the factors are supplied
    const SCformat *Ls = (const SCformat *)e.L.Store; const NCformat *Us = (const NCformat *)e.U.Store;
    sn.add("L store", Ls, sizeof *Ls); sn.add("U store", Us, sizeof *Us);
    sn.add("L values", Ls->nzval, sizeof(T) * (size_t)Ls->nzval_colptr[n]); sn.add("L row indices", Ls->rowind, sizeof(int_t) * (size_t)Ls->rowind_colptr[n]);
    sn.add("L nzval_colptr", Ls->nzval_colptr, sizeof(int_t) * (size_t)(n + 1)); sn.add("L rowind_colptr", Ls->rowind_colptr, sizeof(int_t) * (size_t)(n + 1));
    sn.add("U values", Us->nzval, sizeof(T) * (size_t)Us->colptr[n]); sn.add("U row indices", Us->rowind, sizeof(int_t) * (size_t)Us->colptr[n]); sn.add("U colptr", Us->colptr, sizeof(int_t) * (size_t)(n + 1));
    sn.add("x vector", xvec.data(), xvec.size() * sizeof(T)); sn.add("y vector", yvec.data(), yvec.size() * sizeof(T));
    // ---- the corrupted call -------------------------------------------------------------------------
    GlobalLU_t Glu; mem_usage_t mu; std::memset(&Glu, 0, sizeof Glu);
    bool aborted = guarded([&] {
        switch (routine) {
        case R_GSSV: Tr<T>::gssv(&so, &A, e.perm_c.data(), e.perm_r.data(), &L, &U, &B, &e.stat, &info); got = info; break;
        case R_GSSVX: Tr<T>::gssvx(&so, &A, e.perm_c.data(), e.perm_r.data(), e.etree.data(), equed, Rs.data(), Cs.data(), &L, &U, nullptr, lwork, &B, &X, &rpg, &rcond, ferr.data(), berr.data(), &Glu, &mu, &e.stat, &info); got = info; break;
        case R_GSISX: Tr<T>::gsisx(&so, &A, e.perm_c.data(), e.perm_r.data(), e.etree.data(), equed, Rs.data(), Cs.data(), &L, &U, nullptr, lwork, &B, &X, &rpg, &rcond, &Glu, &mu, &e.stat, &info); got = info; break;
        case R_GSTRS: Tr<T>::gstrs(tr, &L, &U, e.perm_c.data(), e.perm_r.data(), &B, &e.stat, &iinfo); got = iinfo; break;
        case R_GSRFS: Tr<T>::gsrfs(tr, &A, &L, &U, e.perm_c.data(), e.perm_r.data(), equed, Rs.data(), Cs.data(), &B, &X, ferr.data(), berr.data(), &e.stat, &iinfo); got = iinfo; break;
        case R_GSCON: Tr<T>::gscon(norm, &L, &U, anorm, &rcond, &e.stat, &iinfo); got = iinfo; break;
        case R_GSEQU: Tr<T>::gsequ(&A, Rs.data(), Cs.data(), &rowcnd, &colcnd, &amax, &iinfo); got = iinfo; break;
        case R_TRSV: Tr<T>::sp_trsv(uplo, trans, diag, &L, &U, xvec.data(), &e.stat, &iinfo); got = iinfo; break;
        default: Tr<T>::sp_gemv(trans, T(1), &A, xvec.data(), incx, T(1), yvec.data(), incy); got = 0; break;
        }
    }) != 0;
    bool ok = true;
    do {
        if (aborted) { cx.fail("abort", fmt("%s with %s: the library called ABORT / exit instead of returning info=%lld: %s", rname[routine], what.c_str(), want, vf_abort_msg())); ok = false; break; }
        if (got != want) { cx.fail("info-value", fmt("%s with %s: returned info=%lld, documented value is %lld", rname[routine], what.c_str(), got, want)); ok = false; break; }
        const char *ch = sn.changed();
        if (ch) { cx.fail("modified", fmt("%s with %s returned info=%lld but modified the caller's %s", rname[routine], what.c_str(), got, ch)); ok = false; break; }
        long live_after = vf_live_blocks();
        if (live_after != live_before) { char buf[300]; vf_describe_live(buf, sizeof buf, 12); cx.fail("retained-allocation", fmt("%s with %s returned info=%lld but %ld allocation(s) were retained (live blocks now: %s)", rname[routine], what.c_str(), got, live_after - live_before, buf)); ok = false; break; }
    } while (0);
    if (!ok) { vf_purge(); return; }
    e.teardown();
    if (!ledger_clean(cx, "after tearing down the valid base")) return;
    cx.nontrivial = true;
}

static void run(char type, Choice &c, Ctx &cx)
{
    switch (type) {
    case 's': run_T<float>(c, cx); break;
    case 'd': run_T<double>(c, cx); break;
    case 'c': run_T<cfloat>(c, cx); break;
    default: run_T<cdouble>(c, cx); break;
    }
}

const PropInfo vf_prop = {
    "C18",
    "a valid generated base (diagonally dominant matrix factored through the expert driver, so real L, U, permutations and scale factors exist), then exactly one corruption taken from a table built from each routine's own screening code "
    "(?gssv, ?gssvx, ?gsisx, ?gstrs, ?gsrfs, ?gscon, ?gsequ, sp_?trsv, sp_?gemv): non-square or negative dimensions, wrong Stype/Dtype/Mtype tag on every matrix argument, lda < n, ncol < 0, Fact/Trans/Equil outside their enumeration, "
    "lwork < -1, bad equed letter or non-positive R/C entry with FACTORED, X.ncol != B.ncol, bad norm/uplo/trans/diag letter, zero increment; oracle: info = -(argument position) exactly, bit-identical snapshots of A, B, X, perm_c, perm_r, etree, R, C, "
    "L and U (structs, stores and arrays), vectors; number of live ledger blocks unchanged; every (routine, corruption) pair is labelled in the evidence; non-trivial = the pair was applicable and executed; "
    "distinct = hash of consumed stream prefix and type",
    run, "sdcz"};

}  // namespace vf
