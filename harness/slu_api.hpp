// Binding of the four arithmetic variants of the SuperLU API to one template
// parameter.  T is float, double, std::complex<float>, std::complex<double>.
#pragma once
#include <complex>
#include <cstdio>
#include <cstring>
#include <cfloat>
#include <cmath>
extern "C" {
#include "slu_sdefs.h"
#include "slu_ddefs.h"
#include "slu_cdefs.h"
#include "slu_zdefs.h"
float  slangs(char *, SuperMatrix *);
double dlangs(char *, SuperMatrix *);
float  clangs(char *, SuperMatrix *);
double zlangs(char *, SuperMatrix *);
void c_fortran_sgssv_(int *, int *, int_t *, int *, float *, int_t *, int_t *, float *, int *, long long *, int_t *);
void c_fortran_dgssv_(int *, int *, int_t *, int *, double *, int_t *, int_t *, double *, int *, long long *, int_t *);
void c_fortran_cgssv_(int *, int *, int_t *, int *, singlecomplex *, int_t *, int_t *, singlecomplex *, int *, long long *, int_t *);
void c_fortran_zgssv_(int *, int *, int_t *, int *, doublecomplex *, int_t *, int_t *, doublecomplex *, int *, long long *, int_t *);
void dreadtriple_noheader(int *, int *, int_t *, double **, int_t **, int_t **);
}
#undef EMPTY
#undef max
#undef min

namespace vf {

typedef std::complex<float> cfloat;
typedef std::complex<double> cdouble;

template <class T> struct Tr;

#define VF_TRAITS(T_, R_, CT_, P, Dt, LETTER, ISCPLX)                                                     \
template <> struct Tr<T_> {                                                                               \
    typedef T_ T; typedef R_ R; typedef CT_ CT;                                                           \
    static constexpr bool is_complex = ISCPLX;                                                            \
    static constexpr char letter = LETTER;                                                                \
    static constexpr Dtype_t dtype = Dt;                                                                  \
    static CT *c(T *p) { return reinterpret_cast<CT *>(p); }                                              \
    static CT cv(T v) { CT r; std::memcpy(&r, &v, sizeof r); return r; }                                  \
    static R eps() { return P##mach_eps(); }                                                              \
    static void gssv(superlu_options_t *o, SuperMatrix *A, int *pc, int *pr, SuperMatrix *L, SuperMatrix *U, \
                     SuperMatrix *B, SuperLUStat_t *st, int_t *info) { P##gssv(o, A, pc, pr, L, U, B, st, info); } \
    static void gssvx(superlu_options_t *o, SuperMatrix *A, int *pc, int *pr, int *et, char *eq, R *Rs, R *Cs, \
                      SuperMatrix *L, SuperMatrix *U, void *work, int_t lwork, SuperMatrix *B, SuperMatrix *X, \
                      R *rpg, R *rcond, R *ferr, R *berr, GlobalLU_t *G, mem_usage_t *mu, SuperLUStat_t *st, int_t *info) \
    { P##gssvx(o, A, pc, pr, et, eq, Rs, Cs, L, U, work, lwork, B, X, rpg, rcond, ferr, berr, G, mu, st, info); } \
    static void gsisx(superlu_options_t *o, SuperMatrix *A, int *pc, int *pr, int *et, char *eq, R *Rs, R *Cs, \
                      SuperMatrix *L, SuperMatrix *U, void *work, int_t lwork, SuperMatrix *B, SuperMatrix *X, \
                      R *rpg, R *rcond, GlobalLU_t *G, mem_usage_t *mu, SuperLUStat_t *st, int_t *info)     \
    { P##gsisx(o, A, pc, pr, et, eq, Rs, Cs, L, U, work, lwork, B, X, rpg, rcond, G, mu, st, info); }      \
    static void gstrf(superlu_options_t *o, SuperMatrix *AC, int relax, int panel, int *et, void *work, int_t lwork, \
                      int *pc, int *pr, SuperMatrix *L, SuperMatrix *U, GlobalLU_t *G, SuperLUStat_t *st, int_t *info) \
    { P##gstrf(o, AC, relax, panel, et, work, lwork, pc, pr, L, U, G, st, info); }                          \
    static void gsitrf(superlu_options_t *o, SuperMatrix *AC, int relax, int panel, int *et, void *work, int_t lwork, \
                      int *pc, int *pr, SuperMatrix *L, SuperMatrix *U, GlobalLU_t *G, SuperLUStat_t *st, int_t *info) \
    { P##gsitrf(o, AC, relax, panel, et, work, lwork, pc, pr, L, U, G, st, info); }                         \
    static void gstrs(trans_t t, SuperMatrix *L, SuperMatrix *U, const int *pc, const int *pr, SuperMatrix *B, \
                      SuperLUStat_t *st, int *info) { P##gstrs(t, L, U, pc, pr, B, st, info); }             \
    static void gsrfs(trans_t t, SuperMatrix *A, SuperMatrix *L, SuperMatrix *U, int *pc, int *pr, char *eq, R *Rs, R *Cs, \
                      SuperMatrix *B, SuperMatrix *X, R *ferr, R *berr, SuperLUStat_t *st, int *info)       \
    { P##gsrfs(t, A, L, U, pc, pr, eq, Rs, Cs, B, X, ferr, berr, st, info); }                               \
    static void gscon(char *norm, SuperMatrix *L, SuperMatrix *U, R anorm, R *rcond, SuperLUStat_t *st, int *info) \
    { P##gscon(norm, L, U, anorm, rcond, st, info); }                                                       \
    static void gsequ(SuperMatrix *A, R *r, R *c, R *rowcnd, R *colcnd, R *amax, int *info)                 \
    { P##gsequ(A, r, c, rowcnd, colcnd, amax, info); }                                                      \
    static void laqgs(SuperMatrix *A, R *r, R *c, R rowcnd, R colcnd, R amax, char *equed)                  \
    { P##laqgs(A, r, c, rowcnd, colcnd, amax, equed); }                                                     \
    static R PivotGrowth(int ncols, SuperMatrix *A, int *pc, SuperMatrix *L, SuperMatrix *U)               \
    { return P##PivotGrowth(ncols, A, pc, L, U); }                                                          \
    static R langs(char *norm, SuperMatrix *A) { return P##langs(norm, A); }                                \
    static int QuerySpace(SuperMatrix *L, SuperMatrix *U, mem_usage_t *mu) { return P##QuerySpace(L, U, mu); } \
    static int ilu_QuerySpace(SuperMatrix *L, SuperMatrix *U, mem_usage_t *mu) { return ilu_##P##QuerySpace(L, U, mu); } \
    static int ldperm(int job, int n, int_t nnz, int_t *colptr, int_t *adjncy, T *nzval, int *perm, R *u, R *v) \
    { return P##ldperm(job, n, nnz, colptr, adjncy, c(nzval), perm, u, v); }                                \
    static int sp_trsv(char *uplo, char *trans, char *diag, SuperMatrix *L, SuperMatrix *U, T *x, SuperLUStat_t *st, int *info) \
    { return sp_##P##trsv(uplo, trans, diag, L, U, c(x), st, info); }                                       \
    static int sp_gemv(char *trans, T alpha, SuperMatrix *A, T *x, int incx, T beta, T *y, int incy)        \
    { return sp_##P##gemv(trans, cv(alpha), A, c(x), incx, cv(beta), c(y), incy); }                         \
    static int sp_gemm(char *ta, char *tb, int m, int n, int k, T alpha, SuperMatrix *A, T *b, int ldb, T beta, T *cc, int ldc) \
    { return sp_##P##gemm(ta, tb, m, n, k, cv(alpha), A, c(b), ldb, cv(beta), c(cc), ldc); }                \
    static void Create_CompCol(SuperMatrix *A, int m, int n, int_t nnz, T *v, int_t *ri, int_t *cp, Stype_t s, Mtype_t mt) \
    { P##Create_CompCol_Matrix(A, m, n, nnz, c(v), ri, cp, s, Dt, mt); }                                    \
    static void Create_CompRow(SuperMatrix *A, int m, int n, int_t nnz, T *v, int_t *ci, int_t *rp, Stype_t s, Mtype_t mt) \
    { P##Create_CompRow_Matrix(A, m, n, nnz, c(v), ci, rp, s, Dt, mt); }                                    \
    static void Create_Dense(SuperMatrix *X, int m, int n, T *x, int ldx)                                   \
    { P##Create_Dense_Matrix(X, m, n, c(x), ldx, SLU_DN, Dt, SLU_GE); }                                     \
    static void readhb(FILE *f, int *m, int *n, int_t *nnz, T **v, int_t **ri, int_t **cp)                 \
    { CT *vv = nullptr; P##readhb(f, m, n, nnz, &vv, ri, cp); *v = reinterpret_cast<T *>(vv); }             \
    static void readrb(int *m, int *n, int_t *nnz, T **v, int_t **ri, int_t **cp)                          \
    { CT *vv = nullptr; P##readrb(m, n, nnz, &vv, ri, cp); *v = reinterpret_cast<T *>(vv); }                \
    static void readMM(FILE *f, int *m, int *n, int_t *nnz, T **v, int_t **ri, int_t **cp)                 \
    { CT *vv = nullptr; P##readMM(f, m, n, nnz, &vv, ri, cp); *v = reinterpret_cast<T *>(vv); }             \
    static void readtriple(int *m, int *n, int_t *nnz, T **v, int_t **ri, int_t **cp)                      \
    { CT *vv = nullptr; P##readtriple(m, n, nnz, &vv, ri, cp); *v = reinterpret_cast<T *>(vv); }            \
    static void fortran_gssv(int *iopt, int *n, int_t *nnz, int *nrhs, T *v, int_t *ri, int_t *cp, T *b, int *ldb, \
                             long long *handle, int_t *info)                                                \
    { c_fortran_##P##gssv_(iopt, n, nnz, nrhs, c(v), ri, cp, c(b), ldb, handle, info); }                    \
};

static inline float  smach_eps() { static float  e = smach((char *)"E"); return e; }
static inline double dmach_eps() { static double e = dmach((char *)"E"); return e; }
static inline float  cmach_eps() { return smach_eps(); }
static inline double zmach_eps() { return dmach_eps(); }

VF_TRAITS(float, float, float, s, SLU_S, 's', false)
VF_TRAITS(double, double, double, d, SLU_D, 'd', false)
VF_TRAITS(cfloat, float, singlecomplex, c, SLU_C, 'c', true)
VF_TRAITS(cdouble, double, doublecomplex, z, SLU_Z, 'z', true)

}  // namespace vf
