// Choice stream, per-case context, small utilities shared by all properties.
#pragma once
#include <cstdint>
#include <cstdarg>
#include <cstdio>
#include <cstring>
#include <string>
#include <vector>
#include <map>
#include <set>
#include <algorithm>
#include <unistd.h>

namespace vf {

inline std::string fmt(const char *f, ...) __attribute__((format(printf, 1, 2)));
inline std::string fmt(const char *f, ...)
{
    char buf[1024];
    va_list ap; va_start(ap, f);
    int n = vsnprintf(buf, sizeof buf, f, ap);
    va_end(ap);
    if (n < 0) return std::string();
    if ((size_t)n < sizeof buf) return std::string(buf, (size_t)n);
    std::string s((size_t)n + 1, '\0');
    va_start(ap, f); vsnprintf(&s[0], s.size(), f, ap); va_end(ap);
    s.resize((size_t)n);
    return s;
}

// ---------------------------------------------------------------------------
// The choice stream: the only source of variation in a property.  Reads past
// the end return 0, and 0 always decodes to the simplest choice, so that
// byte-level shrinking (drop chunks, reduce bytes) is structural shrinking.
//
// Tail mode (opt-in per run, recorded in the replay file as "tier: <tier>+tail"): reads past the end return
// pseudo-random bytes that are a pure function of (first 8 stream bytes, position), so that a short stream
// still decodes to a large, fully varied case instead of one whose trailing values are all equal.  The
// byte at a position does not depend on the stream length, so truncating a stream keeps the rest of the case.
struct Choice {
    const uint8_t *d; size_t n; size_t pos; uint64_t tail = 0;
    Choice(const uint8_t *data, size_t len) : d(data), n(len), pos(0) {}
    void set_tail(bool on) {
        if (!on) { tail = 0; return; }
        uint64_t h = 0x9E3779B97F4A7C15ULL;
        for (size_t i = 0; i < n && i < 8; ++i) { h ^= d[i]; h *= 1099511628211ULL; }
        tail = h | 1;
    }
    uint8_t tail_byte(size_t p) const {
        uint64_t z = tail + 0x9E3779B97F4A7C15ULL * (uint64_t)(p + 1);
        z = (z ^ (z >> 30)) * 0xBF58476D1CE4E5B9ULL; z = (z ^ (z >> 27)) * 0x94D049BB133111EBULL; z ^= z >> 31;
        return (uint8_t)(z >> 24);
    }
    uint8_t u8() { uint8_t v = pos < n ? d[pos] : (tail ? tail_byte(pos) : 0); ++pos; return v; }
    unsigned u16() { unsigned a = u8(); unsigned b = u8(); return (a << 8) | b; }
    // uniform-ish in [0,k)
    unsigned below(unsigned k) { if (k <= 1) return 0; if (k <= 256) return u8() % k; return u16() % k; }
    int range(int lo, int hi) { return hi <= lo ? lo : lo + (int)below((unsigned)(hi - lo + 1)); }
    // true with probability p256/256; a zero byte means false
    bool chance(unsigned p256) { return (unsigned)(255 - u8()) < p256; }
    // pick index by weights (sum <= 256 recommended); zero byte -> index 0
    template <size_t N> unsigned weighted(const unsigned (&w)[N]) {
        unsigned tot = 0; for (unsigned x : w) tot += x;
        unsigned r = below(tot);
        for (unsigned i = 0; i < N; ++i) { if (r < w[i]) return i; r -= w[i]; }
        return 0;
    }
    size_t consumed() const { return pos < n ? pos : n; }
    bool exhausted() const { return pos >= n; }
};

inline uint64_t fnv1a(const void *p, size_t n, uint64_t h = 1469598103934665603ULL)
{
    const uint8_t *b = (const uint8_t *)p;
    for (size_t i = 0; i < n; ++i) { h ^= b[i]; h *= 1099511628211ULL; }
    return h;
}

// ---------------------------------------------------------------------------
struct Ctx {
    // configuration (set by the front end)
    bool dump = false;            // build a human readable description of the case in `desc`
    int tier = 0;                 // 0 quick, 1 thorough
    bool tailmode = false;        // pseudo-random continuation of an exhausted choice stream (see Choice)
    char type = 'd';
    std::set<std::string> known;  // ids of known findings that are still open (routing + suppression)
    int fill_override = -1;       // >= 0: byte used to fill fresh library blocks instead of the property's choice
    unsigned char fill(unsigned char dflt) const { return fill_override >= 0 ? (unsigned char)fill_override : dflt; }
    // per-case results
    bool failed = false;
    std::string oracle, msg;
    bool nontrivial = false;
    bool skipped = false;
    std::string skip_reason;
    std::string desc;
    uint64_t hash = 0;
    std::vector<std::string> labels;
    std::vector<std::string> excluded;  // known-finding ids this case was routed around

    void begin() {
        failed = false; oracle.clear(); msg.clear(); nontrivial = false; skipped = false;
        skip_reason.clear(); desc.clear(); hash = 0; labels.clear(); excluded.clear();
    }
    void fail(const char *orc, const std::string &m) { if (!failed) { failed = true; oracle = orc; msg = m; } }
    void skip(const char *why) { skipped = true; skip_reason = why; }
    void label(const std::string &s) { labels.push_back(s); }
    void label(const char *s) { labels.emplace_back(s); }
    bool is_known(const char *id) const { return known.count(id) != 0; }
    void exclude(const char *id) { for (auto &e : excluded) if (e == id) return; excluded.emplace_back(id); }
    int dump_fd = -1;             // when >= 0, description lines are also written here at once (survives a crash)
    void d(const std::string &s) { if (dump) { desc += s; desc += '\n'; if (dump_fd >= 0) { std::string t = s + "\n"; ssize_t w = ::write(dump_fd, t.data(), t.size()); (void)w; } } }
};

#define VF_FAIL(cx, orc, ...) do { (cx).fail(orc, ::vf::fmt(__VA_ARGS__)); return; } while (0)
#define VF_FAILB(cx, orc, ...) do { (cx).fail(orc, ::vf::fmt(__VA_ARGS__)); return false; } while (0)
#define VF_REQUIRE(cx, cond, orc, ...) do { if (!(cond)) { (cx).fail(orc, ::vf::fmt(__VA_ARGS__)); return; } } while (0)
#define VF_REQUIREB(cx, cond, orc, ...) do { if (!(cond)) { (cx).fail(orc, ::vf::fmt(__VA_ARGS__)); return false; } } while (0)

// The property implemented by a binary.
struct PropInfo {
    const char *id;
    const char *rule;                                   // generation + non-triviality rule (evidence)
    void (*run)(char type, Choice &, Ctx &);
    const char *types;                                  // arithmetic types the property is run for, e.g. "sdcz"
};
extern const PropInfo vf_prop;

template <class V> inline std::string vec_str(const V &v, size_t maxn = 64)
{
    std::string s = "[";
    size_t k = 0;
    for (auto &x : v) { if (k) s += ","; if (k >= maxn) { s += "..."; break; } s += std::to_string((long long)x); ++k; }
    return s + "]";
}

}  // namespace vf
