/* Allocation ledger, fault injection and ABORT capture for the SuperLU
 * verification harness.  C interface, thread-safe. */
#ifndef VF_LEDGER_H
#define VF_LEDGER_H
#include <stddef.h>
#include "vf_hooks.h"
#ifdef __cplusplus
extern "C" {
#endif

typedef struct {
    long allocs;          /* successful allocations by this thread since vf_case_begin */
    long frees;           /* frees of ledger blocks by this thread */
    long bad_frees;       /* frees of pointers the ledger does not know (double / invalid free) */
    long expand_allocs;   /* allocations whose call site name contains "expand" */
    long faults_fired;    /* allocations refused by fault injection */
    long aborts;          /* ABORT()s captured */
    size_t peak_bytes;
    size_t live_bytes;
} vf_stats_t;

/* Start a case on the calling thread: reset counters, choose the byte that
 * fresh blocks are filled with, clear fault plan. */
void vf_case_begin(unsigned char fill);
/* Fail the k-th (1-based) allocation made by this thread whose call-site
 * function name contains `site` (NULL/"" = any).  sticky != 0: fail all
 * matching allocations from the k-th on.  k = 0 clears. */
void vf_set_fault(const char *site, long k, int sticky);
/* Number of blocks allocated by this thread (since it first ran) that are still live. */
long vf_live_blocks(void);
/* Describe up to `max` live blocks of this thread into buf ("func:size, ..."). */
void vf_describe_live(char *buf, size_t buflen, int max);
/* Free every live block of this thread (after a captured ABORT or a detected leak). */
long vf_purge(void);
const vf_stats_t *vf_stats(void);
/* Run fn(arg) with ABORT capture.  Returns 0 when fn returned, 1 when the
 * library called ABORT (message in vf_abort_msg()). fn must not own C++
 * objects with non-trivial destructors. */
int vf_try(void (*fn)(void *), void *arg);
const char *vf_abort_msg(void);
/* Block ownership helper: size of a live ledger block or (size_t)-1. */
size_t vf_block_size(const void *p);
/* Allocate / free on behalf of the harness through the same ledger
 * (for arrays the library will free, or library arrays the caller must free). */
void *vf_malloc(size_t size);

#ifdef __cplusplus
}
#endif
#endif
