/* Force-included into every SuperLU translation unit built by /verif/check.
 * Binds the library's documented customisation points (USER_MALLOC, USER_FREE,
 * USER_ABORT in slu_util.h) to the verification ledger.  No source file of
 * /repo is modified for this. */
#ifndef VF_HOOKS_H
#define VF_HOOKS_H
#include <stddef.h>
#ifdef __cplusplus
extern "C" {
#endif
void *vf_malloc_at(size_t size, const char *func);
void  vf_free(void *p);
void  vf_abort(const char *msg);
/* the library calls exit() in a few error paths (c_div/z_div "division by zero", readers);
   route it to the same capture as ABORT so one case cannot end the whole search */
void  vf_exit(int code) __attribute__((noreturn));
#ifdef __cplusplus
}
#endif
#endif
