// C06 - refactor / re-solve histories are as good as a fresh factorization.
#include "history.hpp"

namespace vf {

template <class T> static void run_T(Choice &c, Ctx &cx)
{
    HistState<T> H;
    bool done = run_history<T>(c, cx, false, cx.fill(0xA5), 0x6B, H, false);
    cx.hash = fnv1a(c.d, c.consumed(), 0xC06ULL ^ ((uint64_t)Tr<T>::letter << 32));
    if (cx.failed) return;
    if (!done) { vf_purge(); return; }
    // a size query inside a history leaves one allocation of the memory initialisation behind (known finding F16); none occur here
    if (!ledger_clean(cx, "after the history")) return;
    cx.label(fmt("steps=%d", std::min(H.steps_done, 12)));
    if (H.user_mem) cx.label("caller-workspace");
    if (H.abandoned) cx.label("reuse:pivots-abandoned"); if (H.reuse_expansions) cx.label("reuse:with-expansion"); if (H.resolves_after_reuse) cx.label("resolve-trans-after-reuse");
    cx.nontrivial = H.abandoned > 0 || H.reuse_expansions > 0 || H.resolves_after_reuse > 0;
}

static void run(char type, Choice &c, Ctx &cx)
{
    switch (type) {
    case 's': run_T<float>(c, cx); break;
    case 'd': run_T<double>(c, cx); break;
    case 'c': run_T<cfloat>(c, cx); break;
    default: run_T<cdouble>(c, cx); break;
    }
}

const PropInfo vf_prop = {
    "C06",
    "stateful: histories of 2..12 (thorough ..39) expert-driver calls over one generated sparsity pattern - FRESH (DOFACT), SAMEPAT (SamePattern, previous L/U destroyed first), SAMEROW (SamePattern_SameRowPerm, L/U/perm_r/Glu kept), "
    "RESOLVE (FACTORED, A as left by the factor call, any Trans, new B) - respecting the documented preconditions; between factor steps the values change by a tiny perturbation, unrelated values, row/column rescaling, sign flips, "
    "or shrinking the entry that was a remembered pivot; library allocation or one caller workspace for the whole history; fill estimate 1..2 in most histories so storage grows during reuse; "
    "invariant after every step: C02 + C03 + the C05 contract for that step's matrix (identity, structure, multiplier bound, scaling of A and B, residual of op(A)X=B); SAMEROW: at the first column whose pivot differs from the remembered one "
    "the remembered row must fail the threshold test, identical values reproduce perm_r; RESOLVE leaves every byte of L, U, perm_r, perm_c, A, equed unchanged; ledger clean at the end; "
    "non-trivial = a SAMEROW step that abandoned a remembered pivot, a reuse step with >= 1 expansion, or a RESOLVE with Trans != NOTRANS after a reuse step; distinct = hash of consumed stream prefix and type",
    run, "sdcz"};

}  // namespace vf
