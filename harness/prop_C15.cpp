// C15 - incomplete LU never breaks down and is exact when dropping is off.
#include "expert.hpp"

namespace vf {

template <class T> static void run_T(Choice &c, Ctx &cx)
{
    typedef typename Wide<T>::W W; typedef typename Tr<T>::R R;
    const bool cplx = Tr<T>::is_complex, single = sizeof(R) == 4;
    int n = gen_size(c, cx.tier);
    std::string family;
    auto pat = gen_pattern(c, n, n, PAT_NONSING, family);
    GMat G = gen_values(c, n, n, pat, cplx, single, family);
    Opts o = gen_opts(c, n, single, true, true);
    IluOpts io = gen_ilu_opts(c);
    if (c.chance(28)) o.u = 0.0;          // DiagPivotThresh is documented for [0,1]: 0 means "take the diagonal whenever it is nonzero"
    int nrhs = (int)c.below(3);
    int ldb = n + (int)c.below(2), ldx = n + (int)c.below(2);
    Expert<T> e; e.init(n, nrhs, ldb, ldx); e.ilu = true;
    e.S = to_comp<T>(G, o.nr, o.shuffle_rows ? &c : nullptr);
    e.B = gen_rhs<T>(c, n, nrhs, ldb, cplx);
    cx.hash = fnv1a(c.d, c.consumed(), 0xC15ULL ^ ((uint64_t)Tr<T>::letter << 32));
    if (cx.dump) {
        cx.d(fmt("gsisx n=%d nrhs=%d ldb=%d ldx=%d", n, nrhs, ldb, ldx)); cx.d(opts_str(o, true)); cx.d(ilu_str(io)); cx.d(gmat_str(G, cplx));
        for (int j = 0; j < nrhs; ++j) { std::string s = fmt("  b%d:", j); for (int i = 0; i < n; ++i) s += " " + w_str(widen<T>(e.B[(size_t)j * ldb + i])); cx.d(s); }
    }
    static const char *tn[] = {"NOTRANS", "TRANS", "CONJ"};
    cx.label(fmt("droprule=0x%x", io.droprule)); cx.label(io.rowperm == LargeDiag_MC64 ? "rowperm=MC64" : "rowperm=NO"); cx.label(fmt("milu=%d", (int)io.milu)); cx.label(std::string("trans=") + tn[o.trans]);
    if (cplx && o.nr && o.trans == CONJ && cx.is_known("F07")) { cx.exclude("F07"); o.trans = TRANS; }
    // Known finding F-ILU-WORK2: without DROP_INTERP the secondary dropping rule copies a U column (which may hold more than n
    // entries because ILU keeps repeated row indices) into an n-entry scratch array.  Route around it: interpolate instead.
    if ((io.droprule & DROP_SECONDARY) && !(io.droprule & DROP_INTERP) && cx.is_known("F-ILU-WORK2")) { cx.exclude("F-ILU-WORK2"); io.droprule |= DROP_INTERP; }
    bool exsing = maybe_exactly_singular(G);
    cx.label(exsing ? "numerically-singular" : "numerically-nonsingular");
    std::vector<T> val0 = e.S.val, B0 = e.B; std::vector<int_t> idx0 = e.S.idx, ptr0 = e.S.ptr;
    vf_case_begin(cx.fill(0xA5));
    apply_tuning(o.tune);
    ilu_set_default_options(&e.so);
    apply_opts(o, e.so); apply_ilu(io, e.so); e.so.IterRefine = NOREFINE;
    if (o.colperm == MY_PERMC) e.perm_c = o.my_perm_c;
    e.ilu = true;
    // A quarter of the cases factor inside a generous caller workspace (the re-use step then re-uses it): the four growable arrays
    // sit back to back there, so a growth of one moves the others, and every guarantee of the property must survive that.
    std::vector<char> wsbuf;
    if (((cx.hash >> 9) & 3) == 0) { wsbuf.assign(((size_t)1 << 20) + 8, (char)0x5A); e.work = wsbuf.data() + (((cx.hash >> 11) & 1) ? 4 : 0); e.lwork = (int_t)1 << 20; cx.label("caller-workspace"); }
    if (cx.is_known("F-MC64") && mc64_breaks_on(e)) { cx.exclude("F-MC64"); cx.label("F-MC64:not-a-bijection(direct ldperm call on the driver's input)"); vf_purge(); return; }
    e.bind();
    bool aborted = e.call();
    if (aborted) {
        std::string m = vf_abort_msg();
        // (exit(-1) from c_div/z_div used to be excused under F-ILU; its cause was finding F23, fixed in 57340bb)
        cx.fail("abort", "gsisx: library called ABORT/exit: " + m); vf_purge(); return;
    }
    long long info = e.info;
    auto bail = [&] { e.teardown(); vf_purge(); };
    if (e.lwork > 0 && info > n + 1) { e.lu_live = false; bail(); cx.skip("the 1 MB caller workspace did not suffice (shortages are judged by C08)"); return; }
    if (info < 0 || info > n + 1 || (info == n + 1 && !o.condnum)) { e.lu_live = false; bail(); VF_FAIL(cx, "info", "structurally nonsingular matrix: gsisx returned info=%lld (n=%d, ConditionNumber=%d)", info, n, (int)o.condnum); }
    if (!bytes_equal(e.S.idx, idx0) || !bytes_equal(e.S.ptr, ptr0)) { bail(); VF_FAIL(cx, "row-indices", "the caller's matrix is not returned with its original row indices / pointers"); }
    char eq = e.equed[0];
    if (!(eq == 'N' || eq == 'R' || eq == 'C' || eq == 'B')) { bail(); VF_FAIL(cx, "equed", "equed='%c'", eq); }
    bool rowequ = e.rowequ(), colequ = e.colequ(); LD uu = Consts<T>::u();
    if (!is_perm(e.perm_r.data(), n) || !is_perm(e.perm_c.data(), n)) {
        bail(); VF_FAIL(cx, "perm", "permutations returned by gsisx are not bijections: info=%lld perm_r=%s perm_c=%s", info, vec_str(e.perm_r).c_str(), vec_str(e.perm_c).c_str());
    }
    // A row or column that is numerically zero has no scaling that makes its largest entry 1: ?gsequ reports it and the drivers
    // skip equilibration, but the MC64 path (scalings as exponentials of the duals) returns a factor 0 for it.  What "the
    // documented scaling" means is then undefined, so such a case is not judged on its scale factors.
    {
        bool zline = false; std::vector<char> cnz(n, 0), rnz(n, 0);
        for (int k = 0; k < n; ++k) for (int_t p = ptr0[k]; p < ptr0[k + 1]; ++p) if (val0[p] != T(0)) { cnz[k] = 1; rnz[idx0[p]] = 1; }
        for (int k = 0; k < n; ++k) if (!cnz[k] || !rnz[k]) zline = true;
        bool badscale = false;
        if (rowequ) for (int i = 0; i < n; ++i) if (!(e.Rs[i] > 0) || !std::isfinite((double)e.Rs[i])) badscale = true;
        if (colequ) for (int i = 0; i < n; ++i) if (!(e.Cs[i] > 0) || !std::isfinite((double)e.Cs[i])) badscale = true;
        if (zline && badscale) { cx.skip("scaling-undefined(zero row or column)"); bail(); return; }
    }
    // A on exit = the documented scaling of the input
    for (int k = 0; k < n; ++k) for (int_t p = e.S.ptr[k]; p < e.S.ptr[k + 1]; ++p) {
        int i = (int)e.S.idx[p]; W expect = widen<T>(val0[p]);
        if (rowequ) { if (!(e.Rs[i] > 0) || !std::isfinite((double)e.Rs[i])) { bail(); VF_FAIL(cx, "scale-factors", "R[%d]=%g", i, (double)e.Rs[i]); } expect *= (LD)e.Rs[i]; }
        if (colequ) { if (!(e.Cs[k] > 0) || !std::isfinite((double)e.Cs[k])) { bail(); VF_FAIL(cx, "scale-factors", "C[%d]=%g", k, (double)e.Cs[k]); } expect *= (LD)e.Cs[k]; }
        W got = widen<T>(e.S.val[p]);
        if (eq == 'N') { if (std::memcmp(&e.S.val[p], &val0[p], sizeof(T)) != 0) { bail(); VF_FAIL(cx, "A-modified", "equed='N' but a stored value changed"); } }
        else if (!(absm(got - expect) <= 8 * uu * absm(expect) + Consts<T>::safmin())) { bail(); VF_FAIL(cx, "A-scaling", "equed='%c': AA(%d,%d)=%s expected r*a*c=%s", eq, i, k, w_str(got).c_str(), w_str(expect).c_str()); }
    }
    FactorShape fs;
    if (!check_structure<T>(cx, &e.L, &e.U, n, n, true, fs)) { bail(); return; }
    Dense<W> Ld, Ud; decode_factors<T>(&e.L, &e.U, Ld, Ud);
    bool ok = true; bool exact_branch = false, nt = false;
    do {
        for (int j = 0; j < n && ok; ++j) if (!(Ud(j, j) != W(0)) || !finite_w(Ud(j, j))) { cx.fail("u-diagonal", fmt("U(%d,%d)=%s: the diagonal of U must be nonzero and finite (info=%lld)", j, j, w_str(Ud(j, j)).c_str(), info)); ok = false; }
        if (!ok) break;
        if (!all_finite(Ld) || !all_finite(Ud)) { cx.skip("overflow-degenerate"); break; }
        Dense<LD> E = abs_product(Ld, Ud);
        if (!all_finite(E)) { cx.skip("overflow-degenerate"); break; }
        bool notran_eff = o.nr ? (o.trans != NOTRANS) : (o.trans == NOTRANS);
        trans_t trant = o.nr ? (o.trans == NOTRANS ? TRANS : NOTRANS) : o.trans;
        // ---- X is the preconditioner solve defined by the returned factors ---------------------------
        if (nrhs > 0) {
            // M = Pr^T L U Pc^T in the coordinates of the (scaled) matrix
            Dense<W> P = product(Ld, Ud), M(n, n);
            for (int j = 0; j < n; ++j) for (int i = 0; i < n; ++i) M(i, j) = P(e.perm_r[i], e.perm_c[j]);
            Dense<W> Op = trant == NOTRANS ? M : transpose(M, trant == CONJ);
            if (cplx && o.nr && o.trans == CONJ) for (auto &x : Op.a) x = conj_w(x);   // row storage, Trans = CONJ: the operator is conj(M)
            Dense<LD> F = permute_back(E, e.perm_r.data(), e.perm_c.data(), n, trant != NOTRANS);
            const std::vector<R> *xs = notran_eff ? (colequ ? &e.Cs : nullptr) : (rowequ ? &e.Rs : nullptr);
            const std::vector<R> *bs = notran_eff ? (rowequ ? &e.Rs : nullptr) : (colequ ? &e.Cs : nullptr);
            // B on exit is scaled by exactly the documented factor
            for (size_t q = 0; q < e.B.size() && ok; ++q) { size_t i = q % (size_t)ldb, j = q / (size_t)ldb; T expect = B0[q]; if (bs && (int)i < n && (int)j < nrhs) expect = B0[q] * (*bs)[i]; if (std::memcmp(&expect, &e.B[q], sizeof(T)) != 0) { cx.fail("B-scaling", fmt("B(%zu,%zu) on exit is %s, expected %s", i, j, w_str(widen<T>(e.B[q])).c_str(), w_str(widen<T>(expect)).c_str())); ok = false; } }
            if (!ok) break;
            std::vector<T> Y((size_t)n * nrhs), Bs((size_t)n * nrhs);
            std::vector<LD> ydiv(n, 1); if (xs) for (int i = 0; i < n; ++i) ydiv[i] = (*xs)[i];
            for (int j = 0; j < nrhs; ++j) for (int i = 0; i < n; ++i) Bs[(size_t)j * n + i] = e.B[(size_t)j * ldb + i];
            std::vector<T> Xc((size_t)n * nrhs); for (int j = 0; j < nrhs; ++j) for (int i = 0; i < n; ++i) Xc[(size_t)j * n + i] = e.X[(size_t)j * ldx + i];
            // the residual is measured in the scaled variables: |B_s - op(M)(X./s)|
            if (!xs) { if (!check_residual<T>(cx, Op, F, Xc.data(), n, Bs.data(), n, nrhs, nullptr, nullptr, 1, "preconditioner-solve")) { ok = false; break; } }
            else {
                for (int j = 0; j < nrhs && ok; ++j) for (int i = 0; i < n && ok; ++i) {
                    W r = widen<T>(Bs[(size_t)j * n + i]); LD bound = 0;
                    for (int k = 0; k < n; ++k) { W y = widen<T>(Xc[(size_t)j * n + k]) / ydiv[k]; r -= Op(i, k) * y; bound += F(i, k) * absm(y); }
                    LD b = Consts<T>::c() * n * uu * bound + 8 * uu * absm(widen<T>(Bs[(size_t)j * n + i])) + n * Consts<T>::safmin();
                    for (int k = 0; k < n; ++k) b += 4 * uu * absm(Op(i, k)) * absm(widen<T>(Xc[(size_t)j * n + k]) / ydiv[k]);
                    if (std::isfinite((double)b) && !(absm(r) <= b)) { cx.fail("preconditioner-solve", fmt("rhs %d row %d: |B_s - op(L*U permuted back)*(X./scale)| = %.6Lg exceeds %.6Lg", j, i, absm(r), b)); ok = false; }
                }
            }
            if (!ok || cx.skipped) break;
        }
        // ---- dropping disabled and no pivot replaced: complete-LU accuracy -----------------------------
        bool nodrop = io.droprule == NODROP || (io.droptol == 0.0 && !(io.droprule & (DROP_SECONDARY | DROP_DYNAMIC | DROP_INTERP)));
        if (nodrop && (info == 0 || info == n + 1)) {
            exact_branch = true;
            Dense<W> AAeq = factored_matrix(e);
            if (!check_identity<T>(cx, AAeq, e.perm_r.data(), e.perm_c.data(), Ld, Ud, E, n, "nodrop-identity")) { ok = false; break; }
            if (nrhs > 0) {
                Dense<W> A0 = dense_of(Comp<T>{e.S.m, e.S.n, e.S.byrow, ptr0, idx0, val0});
                Dense<W> Op = o.trans == NOTRANS ? A0 : transpose(A0, o.trans == CONJ);
                Dense<LD> F = permute_back(E, e.perm_r.data(), e.perm_c.data(), n, !notran_eff);
                std::vector<LD> ydiv(n, 1), rdiv(n, 1);
                for (int i = 0; i < n; ++i) { if (notran_eff) { if (colequ) ydiv[i] = e.Cs[i]; if (rowequ) rdiv[i] = e.Rs[i]; } else { if (rowequ) ydiv[i] = e.Rs[i]; if (colequ) rdiv[i] = e.Cs[i]; } }
                if (!check_residual<T>(cx, Op, F, e.X.data(), ldx, B0.data(), ldb, nrhs, ydiv.data(), rdiv.data(), 1, "nodrop-residual")) { ok = false; break; }
            }
        }
        nt = (info >= 1 && info <= n) || exact_branch || (!nodrop);
    } while (0);
    // ---- the incomplete factors re-used for other values (Fact = SamePattern_SameRowPerm) ----------------------------
    // Dropping depends on the values, so fill, supernode partition and counts generally change; what is handed back must
    // again be one consistent structure, and X must again be the solve defined by the returned factors.
    bool reused = false;
    if (ok && !cx.skipped && e.lu_live && c.chance(90)) {
        for (size_t q = 0; q < e.S.val.size(); ++q) { int sft = zigzag(c.u8(), single ? 6 : 12); e.S.val[q] = val0[q] * (R)std::ldexp(1.0, sft); }
        std::vector<T> val1 = e.S.val;
        e.B = gen_rhs<T>(c, n, nrhs, ldb, cplx); std::vector<T> B1 = e.B;
        e.X.assign(e.X.size(), sentinel_value<T>());
        e.so.Fact = SamePattern_SameRowPerm;
        if (cx.is_known("F-MC64") && mc64_breaks_on(e)) { cx.exclude("F-MC64"); cx.label("F-MC64:not-a-bijection(direct ldperm call on the driver's input, re-use step)"); e.S.val = val0; e.bind(); bail(); return; }
        e.bind();
        if (e.call()) { cx.fail("abort", "gsisx(SamePattern_SameRowPerm): library called ABORT/exit: " + std::string(vf_abort_msg())); vf_purge(); return; }
        long long info2 = e.info; reused = true;
        if (e.lwork > 0 && info2 > n + 1) { bail(); cx.skip("the 1 MB caller workspace did not suffice in the re-use step (shortages are judged by C08)"); return; }
        if (info2 < 0 || info2 > n + 1) { e.lu_live = false; bail(); VF_FAIL(cx, "info", "re-use of the incomplete factors returned info=%lld", info2); }
        if (!is_perm(e.perm_r.data(), n) || !is_perm(e.perm_c.data(), n)) { bail(); VF_FAIL(cx, "perm", "after re-use with SamePattern_SameRowPerm (info=%lld) the permutations are not bijections: perm_r=%s perm_c=%s", info2, vec_str(e.perm_r).c_str(), vec_str(e.perm_c).c_str()); }
        FactorShape fs2;
        if (!check_structure<T>(cx, &e.L, &e.U, n, n, true, fs2)) { cx.msg = "after re-use with SamePattern_SameRowPerm: " + cx.msg; bail(); return; }
        Dense<W> L2, U2; decode_factors<T>(&e.L, &e.U, L2, U2);
        for (int j = 0; j < n; ++j) if (!(U2(j, j) != W(0)) || !finite_w(U2(j, j))) { bail(); VF_FAIL(cx, "u-diagonal", "after re-use: U(%d,%d)=%s", j, j, w_str(U2(j, j)).c_str()); }
        if (nrhs > 0 && e.equed[0] == 'N' && all_finite(L2) && all_finite(U2)) {
            Dense<LD> E2 = abs_product(L2, U2);
            if (all_finite(E2)) {
                trans_t trant2 = o.nr ? (o.trans == NOTRANS ? TRANS : NOTRANS) : o.trans;
                Dense<W> P2 = product(L2, U2), M2(n, n);
                for (int j = 0; j < n; ++j) for (int i = 0; i < n; ++i) M2(i, j) = P2(e.perm_r[i], e.perm_c[j]);
                Dense<W> Op2 = trant2 == NOTRANS ? M2 : transpose(M2, trant2 == CONJ);
                if (cplx && o.nr && o.trans == CONJ) for (auto &x : Op2.a) x = conj_w(x);
                Dense<LD> F2 = permute_back(E2, e.perm_r.data(), e.perm_c.data(), n, trant2 != NOTRANS);
                if (!check_residual<T>(cx, Op2, F2, e.X.data(), ldx, B1.data(), ldb, nrhs, nullptr, nullptr, 1, "preconditioner-solve(re-use)")) { bail(); return; }
            }
        }
    }
    e.teardown();
    if (!ok) { vf_purge(); return; }
    if (!ledger_clean(cx, "after destroying the ILU factors")) return;
    if (cx.skipped) return;
    if (info >= 1 && info <= n) cx.label("pivots-replaced"); if (exact_branch) cx.label("nodrop-exact-branch"); if (fs.multi) cx.label("supernodes=multi");
    cx.label(std::string("equed=") + eq); if (reused) cx.label("refactored-same-row-perm");
    cx.nontrivial = nt && n >= 2;
}

static void run(char type, Choice &c, Ctx &cx)
{
    switch (type) {
    case 's': run_T<float>(c, cx); break;
    case 'd': run_T<double>(c, cx); break;
    case 'c': run_T<cfloat>(c, cx); break;
    default: run_T<cdouble>(c, cx); break;
    }
}

const PropInfo vf_prop = {
    "C15",
    "structurally nonsingular square A (planted transversal; zero diagonals, numerically singular leading blocks, explicit zeros) through ?gsisx with ILU_DropRule in {NODROP, BASIC, BASIC+PROWS, BASIC+COLUMN, BASIC+AREA} optionally with DYNAMIC/INTERP, "
    "DropTol in {0,1e-8,..,0.5}, FillFactor 1..20, FillTol 1e-8..1, Norm, all MILU variants, RowPerm in {NOROWPERM, LargeDiag_MC64}, Trans, Equil, NC/NR, orderings, tunings, nrhs 0..2; "
    "oracle: the call returns, 0 <= info <= n (n+1 with ConditionNumber), permutations are bijections, U's diagonal nonzero and finite, C03 predicate (ILU variant), A returned with its original index arrays and values = documented scaling, "
    "B scaled by the one documented factor, X satisfies |B_s - op(Pr^T L U Pc^T)(X./s)| <= c*n*eps*|L||U||.| (it is the preconditioner solve of the returned factors); with dropping disabled and no pivot replaced the C02 identity and the C01 residual bound; "
    "non-trivial = a replaced pivot, a drop rule in force, or the exactness branch; distinct = hash of consumed stream prefix and type",
    run, "sdcz"};

}  // namespace vf
