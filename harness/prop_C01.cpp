// C01 - the simple driver returns a solution of A*X = B.
#include "lucheck.hpp"

namespace vf {

template <class T> static void run_T(Choice &c, Ctx &cx)
{
    typedef typename Wide<T>::W W; typedef typename Tr<T>::R R;
    const bool cplx = Tr<T>::is_complex, single = sizeof(R) == 4;
    int n = gen_size(c, cx.tier);
    std::string family;
    PatMode pm = c.chance(16) ? PAT_ANY : PAT_NONSING;
    auto pat = gen_pattern(c, n, n, pm, family);
    GMat G = gen_values(c, n, n, pat, cplx, single, family);
    Opts o = gen_opts(c, n, single, true, false);
    static const unsigned wn[] = {6, 1, 4, 2, 2}; static const int nr[] = {1, 0, 2, 3, 4};
    int nrhs = nr[c.weighted(wn)];
    int ldb = n + (int)c.below(4);
    Comp<T> S = to_comp<T>(G, o.nr, o.shuffle_rows ? &c : nullptr);
    std::vector<T> B = gen_rhs<T>(c, n, nrhs, ldb, cplx);
    cx.hash = fnv1a(c.d, c.consumed(), 0xC01ULL ^ ((uint64_t)Tr<T>::letter << 32));
    if (cx.dump) {
        cx.d(fmt("gssv n=%d nrhs=%d ldb=%d", n, nrhs, ldb)); cx.d(opts_str(o, false)); cx.d(gmat_str(G, cplx));
        for (int j = 0; j < nrhs; ++j) { std::string s = fmt("  b%d:", j); for (int i = 0; i < n; ++i) s += " " + w_str(widen<T>(B[(size_t)j * ldb + i])); cx.d(s); }
    }
    cx.label("family=" + G.family); cx.label("values=" + G.vkind);
    cx.label(std::string("colperm=") + colperm_name(o.colperm));
    cx.label(o.nr ? "storage=NR" : "storage=NC");
    cx.label(fmt("nrhs=%d", nrhs));
    if (cx.is_known("F-SS") && maybe_exactly_singular(G)) { cx.exclude("F-SS"); cx.label("exactly-singular(excluded)"); return; }

    Dense<W> A0 = dense_of(S);                   // the caller's A
    Dense<W> AA = o.nr ? transpose(A0) : A0;     // the matrix that is factored
    vf_case_begin(cx.fill(0xA5));
    apply_tuning(o.tune);
    superlu_options_t so; set_default_options(&so); apply_opts(o, so);
    std::vector<int> perm_r(n, -1), perm_c(n, -1);
    if (o.colperm == MY_PERMC) perm_c = o.my_perm_c;
    std::vector<int_t> idx0 = S.idx, ptr0 = S.ptr; std::vector<T> val0 = S.val, B0 = B;
    MatView<T> A; A.create(S);
    DenseView<T> Bv; Bv.create(n, nrhs, B.data(), ldb);
    SuperMatrix L, U; std::memset(&L, 0, sizeof L); std::memset(&U, 0, sizeof U);
    SuperLUStat_t stat; StatInit(&stat);
    int_t info = -999;
    VF_GUARDED(cx, "gssv", [&] { Tr<T>::gssv(&so, &A.A, perm_c.data(), perm_r.data(), &L, &U, &Bv.X, &stat, &info); });
    bool factors_exist = info >= 0 && info <= n;
    auto cleanup = [&] { if (factors_exist) { Destroy_SuperNode_Matrix(&L); Destroy_CompCol_Matrix(&U); } A.destroy(); Bv.destroy(); StatFree(&stat); };
    if (info < 0 || info > n) { cleanup(); vf_purge(); VF_FAIL(cx, "info", "valid call returned info=%lld (n=%d)", (long long)info, n); }
    if (!bytes_equal(S.idx, idx0) || !bytes_equal(S.ptr, ptr0) || !bytes_equal(S.val, val0)) { cleanup(); vf_purge(); VF_FAIL(cx, "input-modified", "the caller's matrix arrays were modified by the simple driver"); }
    // padding rows and the element past the end keep their sentinels
    for (int j = 0; j < nrhs; ++j) for (int i = n; i < ldb; ++i)
        if (std::memcmp(&B[(size_t)j * ldb + i], &B0[(size_t)j * ldb + i], sizeof(T)) != 0) { cleanup(); vf_purge(); VF_FAIL(cx, "padding", "padding row %d of right-hand side %d (ldb=%d > n=%d) was overwritten", i, j, ldb, n); }
    if (std::memcmp(&B.back(), &B0.back(), sizeof(T)) != 0) { cleanup(); vf_purge(); VF_FAIL(cx, "padding", "element past the end of B was overwritten"); }
    if (info > 0) {
        cx.label("singular-return");
        bool same = bytes_equal(B, B0);
        cleanup();
        VF_REQUIRE(cx, same, "rhs-touched-on-singular", "info=%lld but B was modified", (long long)info);
        ledger_clean(cx, "after singular return");
        return;
    }
    LUDecoded<T> dec;
    bool ok = check_lu<T>(cx, AA, perm_r.data(), perm_c.data(), &L, &U, o.u, true, false, dec);
    int expansions = stat.expansions;
    if (ok && !dec.degenerate && nrhs > 0) {
        Dense<LD> F = permute_back(dec.E, perm_r.data(), perm_c.data(), n, o.nr);
        ok = check_residual<T>(cx, A0, F, B.data(), ldb, B0.data(), ldb, nrhs, nullptr, nullptr, 1);
    }
    cleanup();
    if (!ok) { vf_purge(); return; }
    if (!ledger_clean(cx, "after destroying L, U, A, B")) return;
    if (dec.degenerate) { cx.skip("overflow-degenerate"); return; }
    if (cx.skipped) return;
    cx.label(dec.fs.multi ? "supernodes=multi" : "supernodes=singleton");
    if (dec.offdiag_pivots) cx.label("offdiag-pivot");
    if (expansions > 0) cx.label("expansions>0");
    if (ldb > n) cx.label("ldb>n");
    cx.nontrivial = n >= 2 && nrhs >= 1 && (dec.offdiag_pivots > 0 || dec.fs.multi > 0);
}

static void run(char type, Choice &c, Ctx &cx)
{
    switch (type) {
    case 's': run_T<float>(c, cx); break;
    case 'd': run_T<double>(c, cx); break;
    case 'c': run_T<cfloat>(c, cx); break;
    default: run_T<cdouble>(c, cx); break;
    }
}

const PropInfo vf_prop = {
    "C01",
    "square A (15 pattern x 7 value families, SLU_NC or SLU_NR, sorted or shuffled indices), B with nrhs 0..4 and ldb n..n+3, all ColPerm incl. MY_PERMC, "
    "u in {1,.5,.1,.01,1e-3,1e-8}, SymmetricMode, tuning (panel, relax<=maxsuper, row/col block, fill 1..30) through ?gssv; oracle when info=0: "
    "|B-A*X|_i <= c*n*eps*((Pr^T|L||U|Pc^T)|X|)_i + n*eps*|B|_i per component from the returned factors, A bit-identical, padding rows untouched, "
    "C02/C03 predicates on the factors, ledger balance zero; non-trivial = info 0, n>=2, nrhs>=1 and (an off-diagonal pivot or a multi-column supernode); "
    "distinct = hash of the consumed choice-stream prefix and the arithmetic type",
    run, "sdcz"};

}  // namespace vf
