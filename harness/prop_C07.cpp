// C07 - how factor storage is obtained never changes the answer.
#include "factorrun.hpp"

namespace vf {

template <class T> static void run_T(Choice &c, Ctx &cx)
{
    GMat G;
    FactorProblem<T> P = gen_factor_problem<T>(c, cx, cx.tier, true, true, &G);
    int n = P.n, k = std::min(P.m, P.n);
    // configurations
    static const int fills_any[] = {5, 1, 2, 3, 30, 1, 2, 20}, fills_stress[] = {1, 1, 2, 1, 1, 2, 1, 3};
    const int *fills = P.stress ? fills_stress : fills_any;
    std::vector<StorageCfg> cfgs;
    StorageCfg base; base.fill = fills[c.below(8)]; cfgs.push_back(base);
    int nsys = 1 + (int)c.below(3), nuser = 1 + (int)c.below(4);
    for (int i = 0; i < nsys; ++i) { StorageCfg s; s.fill = fills[c.below(8)]; cfgs.push_back(s); }
    std::vector<unsigned> userkinds; std::vector<unsigned> userextra;
    for (int i = 0; i < nuser; ++i) { StorageCfg s; s.fill = fills[c.below(8)]; s.lwork = -1; s.misalign = pick_misalign(c.chance(128), cx); s.workfill = c.u8(); userkinds.push_back(c.below(5)); userextra.push_back(c.u16()); cfgs.push_back(s); }
    cx.hash = fnv1a(c.d, c.consumed(), 0xC07ULL ^ ((uint64_t)Tr<T>::letter << 32));
    if (cx.dump) { cx.d(fmt("%s m=%d n=%d", P.ilu ? "gsitrf" : "gstrf", P.m, P.n)); cx.d(opts_str(P.o, false)); if (P.ilu) cx.d(ilu_str(P.io)); cx.d(gmat_str(G, Tr<T>::is_complex)); }
    cx.label(P.ilu ? "factor=ILU" : "factor=LU"); if (P.m > P.n) cx.label("tall");
    if (cx.is_known("F-SS") && maybe_exactly_singular(G)) { cx.exclude("F-SS"); cx.label("exactly-singular(excluded)"); return; }
    unsigned char heapfill = cx.fill(0xA5);
    if (!cx.is_known("F04")) vf_nofork_flag() = true;     // finding F04 (workspace crashes / hangs) is fixed: no isolation needed
    FactorOutcome b = factor_once<T>(P, cfgs[0], heapfill, true);
    auto report = [&](const FactorOutcome &o, const StorageCfg &cf) -> bool {
        if (o.aborted) { cx.fail("abort", fmt("[%s] library called ABORT: %s", cf.str().c_str(), o.abort_msg.c_str())); return false; }
        if (!o.canary_ok) { cx.fail("workspace-overrun", fmt("[%s] %s", cf.str().c_str(), o.canary_msg.c_str())); return false; }
        if (!o.structure_ok) { cx.fail(o.structure_oracle.c_str(), fmt("[%s] %s", cf.str().c_str(), o.structure_msg.c_str())); return false; }
        if (!o.identity_ok) { cx.fail(o.identity_oracle.c_str(), fmt("[%s] %s", cf.str().c_str(), o.identity_msg.c_str())); return false; }
        if (o.leak) {
            // Known finding F16: an out-of-memory return (info > n) leaves the library's own allocations behind
            if (o.info > std::min(P.m, P.n) && cx.is_known("F16")) { cx.exclude("F16"); cx.label("F16:leak-on-out-of-memory"); }
            else { cx.fail("leak", fmt("[%s] %s", cf.str().c_str(), o.leak_msg.c_str())); return false; }
        }
        return true;
    };
    if (cx.dump) cx.d(fmt("config 0: %s -> info=%lld expansions=%d digest=%016llx", cfgs[0].str().c_str(), b.info, b.expansions, (unsigned long long)b.digest));
    if (!report(b, cfgs[0])) return;
    if (b.info < 0 || b.info > k) { cx.fail("info", fmt("[%s] valid call returned info=%lld", cfgs[0].str().c_str(), b.info)); return; }
    if (b.info != 0 && !P.ilu) { cx.label("singular-return"); return; }
    if (b.degenerate) { cx.skip("overflow-degenerate"); return; }
    long need = (long)b.total_needed + 64;
    std::set<int> expcounts; expcounts.insert(b.expansions);
    int user_ok = 0, ui = 0;
    auto check_counts = [&](const FactorOutcome &o, const StorageCfg &cf) -> bool {
        if (o.expansions < 0) { cx.fail("expansions", fmt("[%s] stat.expansions=%d is negative", cf.str().c_str(), o.expansions)); return false; }
        if (cf.lwork == 0 && o.expansions != o.expand_allocs - 4) { cx.fail("expansions", fmt("[%s] stat.expansions=%d but the ledger saw %ld growth request(s) after the 4 initial allocations", cf.str().c_str(), o.expansions, o.expand_allocs - 4)); return false; }
        double lo = (double)o.implied_lo * (1 - 1e-6), hi = (double)o.implied_hi * (1 + 1e-6) + 64;
        if (!((double)o.for_lu >= lo && (double)o.for_lu <= hi)) { cx.fail("mem-usage", fmt("[%s] mem_usage.for_lu=%.9g but the returned arrays occupy between %ld and %ld bytes", cf.str().c_str(), (double)o.for_lu, o.implied_lo, o.implied_hi)); return false; }
        return true;
    };
    if (b.info == 0 && !check_counts(b, cfgs[0])) return;
    for (size_t i = 1; i < cfgs.size(); ++i) {
        StorageCfg cf = cfgs[i]; FactorOutcome o;
        if (cf.lwork == -1) {
            unsigned kind = userkinds[ui], extra = userextra[ui]; ++ui;
            // the library's own size estimate for this fill ratio (size query), never less than what the first run needed
            StorageCfg q = cf; q.lwork = -1;
            FactorOutcome qo = factor_once<T>(P, q, heapfill, false);
            // (the estimate does not cover the work arrays for small panel/large maxsuper tunings, so double it)
            // and never less than the measured factors plus the real work arrays (whose tuning-dependent part, 64 KB with the stock
            // tuning, neither figure covers)
            long panel = sp_ienv(1), maxsuper = std::max(sp_ienv(3), sp_ienv(7)), rowblk = sp_ienv(4);
            long tail_true = (2 * panel + 2 + 3) * (long)P.m * (long)sizeof(int) + ((long)P.m * panel + std::max<long>(P.m, (maxsuper + rowblk) * panel)) * (long)sizeof(T) + 16;
            long est = 2 * std::max<long>(std::max<long>(need, (long)qo.info - n), (long)b.for_lu + tail_true) + 512;
            switch (kind) { case 0: cf.lwork = est; break; case 1: cf.lwork = est + 4; break; case 2: cf.lwork = est + (long)(extra % 4096); break; case 3: cf.lwork = 10 * est; break;
                           // a tight length: the measured requirement plus at most 1 KB (may fall short; when it suffices the head of the workspace ends close to the work arrays)
                           default: cf.lwork = (long)b.for_lu + tail_true + 64 + (long)(extra % 1024); }
            if (cx.dump) cx.d(fmt("config %zu: %s ...", i, cf.str().c_str()));
            IsoResult r = factor_isolated<T>(P, cf, heapfill, true, o, 10);
            if (cx.dump) cx.d(fmt("config %zu: %s -> %s info=%lld expansions=%d digest=%016llx", i, cf.str().c_str(), r.status == IsoResult::OK ? "returned" : (r.status == IsoResult::HANG ? "HANG" : "CRASH"), o.info, o.expansions, (unsigned long long)o.digest));
            if (r.status != IsoResult::OK) {
                if (cx.is_known("F04")) { cx.exclude("F04"); cx.label(r.status == IsoResult::HANG ? "F04:hang" : "F04:crash"); continue; }
                cx.fail(r.status == IsoResult::HANG ? "hang" : "crash", fmt("[%s] the factorization %s", cf.str().c_str(), r.status == IsoResult::HANG ? "did not return within 10 s" : "crashed")); return;
            }
        } else {
            o = factor_once<T>(P, cf, heapfill, true);
            if (cx.dump) cx.d(fmt("config %zu: %s -> info=%lld expansions=%d digest=%016llx", i, cf.str().c_str(), o.info, o.expansions, (unsigned long long)o.digest));
        }
        if (!report(o, cf)) return;
        if (o.info > k) { if (cf.lwork == 0) { cx.fail("info", fmt("[%s] library allocation returned info=%lld (out of memory?)", cf.str().c_str(), o.info)); return; } if (cf.lwork >= 20 * ((long)b.for_lu) + 5000 && cfgs[i].lwork == -1 && userkinds[ui - 1] == 3) { cx.fail("shortage-in-sufficient-workspace", fmt("[%s] info=%lld (shortage) in a workspace of ten times the doubled requirement, while library allocation succeeds", cf.str().c_str(), o.info)); return; } cx.label("user-workspace-insufficient"); continue; }
        if (o.info != b.info) { cx.fail("info-differs", fmt("[%s] info=%lld but [%s] gave info=%lld", cf.str().c_str(), o.info, cfgs[0].str().c_str(), b.info)); return; }
        if (o.info == 0) {
            if (o.digest != b.digest) { cx.fail("factors-differ", fmt("permutations / factors from [%s] are not bit-identical to those from [%s] (digest %016llx vs %016llx)", cf.str().c_str(), cfgs[0].str().c_str(), (unsigned long long)o.digest, (unsigned long long)b.digest)); return; }
            if (!check_counts(o, cf)) return;
            if (o.for_lu != b.for_lu) { cx.fail("mem-usage", fmt("for_lu differs between storage configurations: %.9g vs %.9g", (double)o.for_lu, (double)b.for_lu)); return; }
        }
        expcounts.insert(o.expansions);
        if (cf.lwork > 0) { ++user_ok; cx.label(cf.misalign ? "user-ok(base%8=4)" : "user-ok(aligned)"); if (o.grew & 2) cx.label("user:U-arrays-grew-in-workspace"); if (o.grew & 4) cx.label("user:L-subscripts-grew-in-workspace"); if (o.grew & 1) cx.label("user:L-values-grew-in-workspace"); }
    }
    cx.label(fmt("distinct-expansion-counts=%zu", std::min<size_t>(expcounts.size(), 4)));
    if (b.multi) cx.label("supernodes=multi");
    cx.nontrivial = expcounts.size() >= 2 && user_ok >= 1;
}

static void run(char type, Choice &c, Ctx &cx)
{
    switch (type) {
    case 's': run_T<float>(c, cx); break;
    case 'd': run_T<double>(c, cx); break;
    case 'c': run_T<cfloat>(c, cx); break;
    default: run_T<cdouble>(c, cx); break;
    }
}

const PropInfo vf_prop = {
    "C07",
    "one generated problem (m x n, LU through sp_preorder+?gstrf or ILU through ?gsitrf, all orderings/thresholds/tunings) factored under 3..8 storage configurations: fill estimate in {1,2,3,5,20,30} with library allocation, "
    "and caller workspaces of length need, need+4, need+random, 3*need, 10*need (need from ?QuerySpace of the first run) with 8-byte aligned or 4-byte offset base and arbitrary initial contents (each in a forked child with a watchdog); "
    "oracle (differential): info and a digest of perm_r, perm_c, supernode partition, row lists, value arrays of L and U and the nnz counts are bit-identical across all configurations that returned info <= n; "
    "mem_usage.for_lu lies between the byte size of the used arrays and that plus the pointer arrays and is equal across configurations; stat.expansions >= 0 and equals the growth requests seen by the ledger (library allocation); "
    "guard zones around the workspace intact, C02/C03 hold, ledger clean; non-trivial = two configurations with different expansion counts and a successful caller-workspace run; distinct = hash of consumed stream prefix and type",
    run, "sdcz"};

}  // namespace vf
