// Call histories over one sparsity pattern through the expert driver (C06, C19):
// FRESH (DOFACT), SAMEPAT (SamePattern), SAMEROW (SamePattern_SameRowPerm), RESOLVE (FACTORED), QUERY (lwork = -1).
#pragma once
#include "expert.hpp"
#include "factorrun.hpp"

namespace vf {

enum StepKind { ST_FRESH = 0, ST_SAMEPAT, ST_SAMEROW, ST_RESOLVE, ST_QUERY };
static const char *stepname[] = {"FRESH", "SAMEPAT", "SAMEROW", "RESOLVE", "QUERY"};

template <class T> inline uint64_t factor_digest(const SuperMatrix *L, const SuperMatrix *U, const int *perm_r, const int *perm_c, int n)
{
    const SCformat *Ls = (const SCformat *)L->Store; const NCformat *Us = (const NCformat *)U->Store;
    uint64_t h = 1469598103934665603ULL;
    h = dig(h, perm_r, sizeof(int) * (size_t)n); h = dig(h, perm_c, sizeof(int) * (size_t)n);
    h = dig(h, &Ls->nsuper, sizeof Ls->nsuper); h = dig(h, &Ls->nnz, sizeof Ls->nnz); h = dig(h, &Us->nnz, sizeof Us->nnz);
    h = dig(h, Ls->sup_to_col, sizeof(int) * (size_t)(Ls->nsuper + 2)); h = dig(h, Ls->col_to_sup, sizeof(int) * (size_t)n);
    h = dig(h, Ls->rowind_colptr, sizeof(int_t) * (size_t)(n + 1)); h = dig(h, Ls->rowind, sizeof(int_t) * (size_t)Ls->rowind_colptr[n]);
    h = dig(h, Ls->nzval_colptr, sizeof(int_t) * (size_t)(n + 1)); h = dig(h, Ls->nzval, sizeof(T) * (size_t)Ls->nzval_colptr[n]);
    h = dig(h, Us->colptr, sizeof(int_t) * (size_t)(n + 1)); h = dig(h, Us->rowind, sizeof(int_t) * (size_t)Us->colptr[n]); h = dig(h, Us->nzval, sizeof(T) * (size_t)Us->colptr[n]);
    return h;
}

template <class T> struct HistState {
    typedef typename Tr<T>::R R; typedef typename Wide<T>::W W;
    Expert<T> e;
    GMat G;                         // current logical (original, unscaled) matrix of the pattern
    bool have_order = false;        // perm_c / etree from a DOFACT on this pattern exist
    bool factors_ok = false;        // live factors from a call that returned info in {0, n+1}
    Dense<W> A_of_factors;          // original matrix the live factors belong to
    double u_of_factors = 1;
    bool user_mem = false; std::vector<unsigned char> workbuf;
    std::vector<T> val_in;          // values handed to the last call
    std::vector<T> factored_vals;   // A as left by the last successful factor step (the matrix that was actually factored)
    uint64_t out_digest = 1469598103934665603ULL;   // digest of every defined output (C19 garbage-fill invariance)
    int reuse_expansions = 0, abandoned = 0, resolves_after_reuse = 0, steps_done = 0;
    bool last_was_reuse = false;
};

// Judge one factor step (FRESH / SAMEPAT / SAMEROW) or a RESOLVE.  Returns false on violation.
template <class T>
inline bool judge_step(Ctx &cx, HistState<T> &H, StepKind kind, const Opts &o, const std::vector<T> &val_in, const std::vector<T> &B0, int nrhs, int ldb, int ldx,
                       const std::vector<int> &perm_r_before, uint64_t digest_before, char equed_before, bool same_values_as_before, const char *tag)
{
    typedef typename Wide<T>::W W; typedef typename Tr<T>::R R;
    Expert<T> &e = H.e; int n = e.n; LD uu = Consts<T>::u();
    char eq = e.equed[0];
    VF_REQUIREB(cx, eq == 'N' || eq == 'R' || eq == 'C' || eq == 'B', "equed", "%s: equed='%c'", tag, eq);
    bool rowequ = e.rowequ(), colequ = e.colequ();
    bool notran_eff = o.nr ? (o.trans != NOTRANS) : (o.trans == NOTRANS);
    if (kind == ST_RESOLVE) {
        VF_REQUIREB(cx, eq == equed_before, "resolve-equed", "%s: equed changed from '%c' to '%c' on a FACTORED call", tag, equed_before, eq);
        VF_REQUIREB(cx, bytes_equal(e.S.val, val_in), "resolve-A-modified", "%s: a FACTORED call modified A", tag);
        uint64_t d = factor_digest<T>(&e.L, &e.U, e.perm_r.data(), e.perm_c.data(), n);
        VF_REQUIREB(cx, d == digest_before, "resolve-factors-modified", "%s: re-solving with FACTORED altered L, U, perm_r or perm_c", tag);
    } else {
        if (!o.equil) VF_REQUIREB(cx, eq == 'N', "equed", "%s: Equil=NO but equed='%c'", tag, eq);
        for (int k = 0; k < n; ++k) for (int_t p = e.S.ptr[k]; p < e.S.ptr[k + 1]; ++p) {
            int i = (int)e.S.idx[p];
            W expect = widen<T>(val_in[p]); if (rowequ) expect *= (LD)e.Rs[i]; if (colequ) expect *= (LD)e.Cs[k];
            W got = widen<T>(e.S.val[p]);
            if (eq == 'N') VF_REQUIREB(cx, std::memcmp(&e.S.val[p], &val_in[p], sizeof(T)) == 0, "A-modified", "%s: equed='N' but a stored value changed", tag);
            else VF_REQUIREB(cx, absm(got - expect) <= 4 * uu * absm(expect) + Consts<T>::safmin(), "A-scaling", "%s: equed='%c': AA(%d,%d)=%s, expected r*a*c=%s", tag, eq, i, k, w_str(got).c_str(), w_str(expect).c_str());
        }
    }
    const std::vector<R> *bs = nullptr;
    if (nrhs > 0) { if (notran_eff && rowequ) bs = &e.Rs; else if (!notran_eff && colequ) bs = &e.Cs; }
    for (size_t q = 0; q < e.B.size(); ++q) {
        size_t i = q % (size_t)ldb, j = q / (size_t)ldb;
        T expect = B0[q]; if (bs && (int)i < n && (int)j < nrhs) expect = B0[q] * (*bs)[i];
        VF_REQUIREB(cx, std::memcmp(&expect, &e.B[q], sizeof(T)) == 0, "B-scaling", "%s: B(%zu,%zu) on exit is %s, expected %s", tag, i, j, w_str(widen<T>(e.B[q])).c_str(), w_str(widen<T>(expect)).c_str());
    }
    Dense<W> AAeq = factored_matrix(e);
    LUDecoded<T> dec;
    bool check_pref = (kind == ST_FRESH || kind == ST_SAMEPAT);
    if (!check_lu<T>(cx, AAeq, e.perm_r.data(), e.perm_c.data(), &e.L, &e.U, H.u_of_factors, check_pref, false, dec)) { cx.msg = std::string(tag) + ": " + cx.msg; return false; }
    if (dec.degenerate) { cx.skip("overflow-degenerate"); return true; }
    if (kind == ST_SAMEROW) {
        // reuse of row pivots: at the first column whose pivot row differs from the remembered one, the remembered row must have
        // failed the threshold test (judged from the new factors); identical values must reproduce the remembered pivots
        int jstar = -1; std::vector<int> ipr_old(n), ipr_new(n);
        for (int i = 0; i < n; ++i) { ipr_old[perm_r_before[i]] = i; ipr_new[e.perm_r[i]] = i; }
        for (int j = 0; j < n; ++j) if (ipr_old[j] != ipr_new[j]) { jstar = j; break; }
        if (jstar < 0) cx.label("samerow:all-pivots-reused");
        else {
            H.abandoned++; cx.label("samerow:pivots-abandoned");
            VF_REQUIREB(cx, !same_values_as_before, "samerow-identical-values", "%s: values are bit-identical to the previous factorization but the remembered pivot of column %d was abandoned", tag, jstar);
            int rold = ipr_old[jstar];               // remembered pivot row (original numbering)
            int pos = e.perm_r[rold];                // where it sits now (> jstar: it was not used earlier, columns < jstar reused theirs)
            if (pos > jstar) {
                W p = dec.Ud(jstar, jstar), lc = dec.Ld(pos, jstar);
                LD vmax = abs1(p); for (int i = jstar + 1; i < n; ++i) vmax = std::max(vmax, abs1(dec.Ld(i, jstar) * p));
                LD vc = abs1(lc * p), thresh = (LD)H.u_of_factors * vmax;
                VF_REQUIREB(cx, !(lc != W(0) && vc > thresh * (1 + 64 * uu) + Consts<T>::safmin()), "samerow-pivot-abandoned",
                            "%s: column %d: the remembered pivot row %d has magnitude %.6Lg >= u*max = %.6Lg (u=%g) and is nonzero, yet it was abandoned", tag, jstar, rold, vc, thresh, H.u_of_factors);
            }
        }
    }
    if (nrhs > 0) {
        // X(ldx, nrhs): the rows below n of every column and the element behind the array still hold the sentinel
        { const T sv = sentinel_value<T>();
          for (size_t q = 0; q < e.X.size(); ++q) { size_t i = q % (size_t)ldx, j = q / (size_t)ldx; if ((int)j < nrhs && (int)i < n) continue;
              if (std::memcmp(&e.X[q], &sv, sizeof(T)) != 0) { cx.fail("x-padding-written", fmt("%s: element %zu of the solution array (row %zu of column %zu; n=%d ldx=%d ldb=%d nrhs=%d) lies outside X(1:n,1:nrhs) and was overwritten", tag, q, i, j, n, ldx, ldb, nrhs)); return false; } } }
        Dense<W> Op = o.trans == NOTRANS ? H.A_of_factors : transpose(H.A_of_factors, o.trans == CONJ);
        Dense<LD> F = permute_back(dec.E, e.perm_r.data(), e.perm_c.data(), n, !notran_eff);
        std::vector<LD> ydiv(n, 1), rdiv(n, 1);
        for (int i = 0; i < n; ++i) { if (notran_eff) { if (colequ) ydiv[i] = e.Cs[i]; if (rowequ) rdiv[i] = e.Rs[i]; } else { if (rowequ) ydiv[i] = e.Rs[i]; if (colequ) rdiv[i] = e.Cs[i]; } }
        bool refine = o.refine != NOREFINE && kind != ST_RESOLVE ? true : (o.refine != NOREFINE);
        bool judge = true; LD cm = 1;
        if (refine) {
            cm = 2;
            // ill-conditioned + refinement: the correction is only bounded normwise (see C05)
            Dense<W> Inv; LD kappa = std::numeric_limits<LD>::infinity();
            { // small Gauss-Jordan condition estimate
                int nn = n; Dense<W> M = AAeq; Inv = Dense<W>(nn, nn); for (int i = 0; i < nn; ++i) Inv(i, i) = W(1); bool sing = false;
                for (int k = 0; k < nn && !sing; ++k) { int pp = k; for (int i = k + 1; i < nn; ++i) if (absm(M(i, k)) > absm(M(pp, k))) pp = i; if (absm(M(pp, k)) == 0) { sing = true; break; }
                    if (pp != k) for (int j = 0; j < nn; ++j) { std::swap(M(pp, j), M(k, j)); std::swap(Inv(pp, j), Inv(k, j)); }
                    W d = M(k, k); for (int j = 0; j < nn; ++j) { M(k, j) /= d; Inv(k, j) /= d; }
                    for (int i = 0; i < nn; ++i) if (i != k && M(i, k) != W(0)) { W f = M(i, k); for (int j = 0; j < nn; ++j) { M(i, j) -= f * M(k, j); Inv(i, j) -= f * Inv(k, j); } } }
                if (!sing) { LD an = 0, in = 0; for (int i = 0; i < nn; ++i) { LD s1 = 0, s2 = 0; for (int j = 0; j < nn; ++j) { s1 += absm(AAeq(i, j)); s2 += absm(Inv(i, j)); } an = std::max(an, s1); in = std::max(in, s2); } kappa = an * in; }
            }
            if (!(kappa * n * uu < 0.05L)) judge = false;
        }
        if (judge && !check_residual<T>(cx, Op, F, e.X.data(), ldx, B0.data(), ldb, nrhs, ydiv.data(), rdiv.data(), cm, "residual", refine)) { cx.msg = std::string(tag) + ": " + cx.msg; return false; }
    }
    return true;
}

// Value changes between steps on a fixed pattern.
template <class T> inline void change_values(Choice &c, GMat &G, bool cplx, bool single, const std::vector<int> *perm_r, const std::vector<int> *perm_c, double u, std::string &what)
{
    unsigned k = c.below(6);
    ValGen g; g.kind = c.chance(128) ? 1 : 0; g.cmode = 0; g.expK = 0; g.explicit_zero = false;
    switch (k) {
    case 0: what = "same values"; break;
    case 1: what = "tiny perturbation"; for (auto &col : G.col) for (auto &e : col) { int s = (int)c.below(3); if (s) { e.second.re *= 1 + std::ldexp((double)s, single ? -18 : -40); } } break;
    case 2: what = "unrelated values"; for (auto &col : G.col) for (auto &e : col) e.second = g.value(c, cplx); break;
    case 3: { what = "row/column rescaling"; int K = single ? 6 : 20; std::vector<int> rs(G.m), cs(G.n); for (auto &v : rs) v = zigzag(c.u8(), K); for (auto &v : cs) v = zigzag(c.u8(), K);
              for (int j = 0; j < G.n; ++j) for (auto &e : G.col[j]) { e.second.re = std::ldexp(e.second.re, rs[e.first] + cs[j]); e.second.im = std::ldexp(e.second.im, rs[e.first] + cs[j]); } break; }
    case 4: { // make a remembered pivot fail the threshold: shrink the entry that was the pivot of some column
        what = "remembered pivot shrunk";
        if (perm_r && perm_c && G.n > 0) {
            int jj = (int)c.below((unsigned)G.n); int col = -1; for (int j = 0; j < G.n; ++j) if ((*perm_c)[j] == jj) col = j;
            int prow = -1; for (int i = 0; i < G.m; ++i) if ((*perm_r)[i] == jj) prow = i;
            bool zero_it = c.chance(40);   // the remembered pivot becomes an explicit zero: it must be abandoned whatever the threshold (also u = 0)
            if (zero_it) what = "remembered pivot zeroed";
            if (col >= 0) for (auto &e : G.col[col]) if (e.first == prow) { int s = 3 + (int)c.below(single ? 10u : 30u); e.second.re = zero_it ? 0.0 : std::ldexp(e.second.re, -s); e.second.im = zero_it ? 0.0 : std::ldexp(e.second.im, -s); }
        }
        break; }
    default: what = "sign flips"; for (auto &col : G.col) for (auto &e : col) if (c.chance(100)) { e.second.re = -e.second.re; e.second.im = -e.second.im; } break;
    }
}

// Generate and execute one history.  light: skip the numeric oracles (C19 runs the same history several times with different
// garbage fills and only compares digests of the outputs).  Returns false when the case should stop (violation or skip).
template <class T>
inline bool run_history(Choice &c, Ctx &cx, bool light, unsigned char heapfill, unsigned char workfill, HistState<T> &H, bool with_queries)
{
    typedef typename Wide<T>::W W; typedef typename Tr<T>::R R;
    const bool cplx = Tr<T>::is_complex, single = sizeof(R) == 4;
    int n = gen_size(c, cx.tier, 10, 24);
    std::string family;
    auto pat = gen_pattern(c, n, n, PAT_NONSING, family);
    H.G = gen_values(c, n, n, pat, cplx, single, family, false);
    Opts base = gen_opts(c, n, single, true, false);
    if (c.chance(20)) base.u = 0.0;   // a legal threshold: "use the remembered / diagonal pivot whenever it is nonzero"
    if (c.chance(140)) { base.tune.stock = false; base.tune.v[0] = 0; base.tune.v[6] = 1 + (int)c.below(2); if (base.tune.v[1] < 1) { base.tune.v[1] = 2; base.tune.v[2] = 1; base.tune.v[3] = 3; base.tune.v[4] = 2; base.tune.v[5] = 2; base.tune.v[7] = 3; } }   // small fill estimate: storage must grow
    H.user_mem = c.chance(70);
    int steps = 2 + (int)c.below(cx.tier > 0 ? 38u : 11u);
    if (cx.is_known("F-SS") && maybe_exactly_singular(H.G)) { cx.exclude("F-SS"); return false; }
    if (cx.dump) { cx.d(fmt("history over one %dx%d pattern, %d steps, %s memory", n, n, steps, H.user_mem ? "caller workspace" : "library")); cx.d(opts_str(base, false)); cx.d(gmat_str(H.G, cplx)); }
    vf_case_begin(heapfill);
    apply_tuning(base.tune);
    Expert<T> &e = H.e;
    e.init(n, 0, n, n);
    e.S = to_comp<T>(H.G, base.nr, base.shuffle_rows ? &c : nullptr);
    if (H.user_mem) { size_t sz = (size_t)(40000 + 4000 * n) * (sizeof(T) / 4); H.workbuf.assign(sz + 16, workfill); e.work = H.workbuf.data() + 8 + pick_misalign(c.chance(128), cx); e.lwork = (int_t)sz; }
    std::string hist;
    for (int st = 0; st < steps; ++st) {
        // ---- choose a legal step ------------------------------------------------------------------
        unsigned k = c.below(with_queries ? 10u : 9u);
        StepKind kind = k <= 1 ? ST_FRESH : (k <= 3 ? ST_SAMEPAT : (k <= 5 ? ST_SAMEROW : (k <= 8 ? ST_RESOLVE : ST_QUERY)));
        if (st == 0) kind = ST_FRESH;
        if (kind == ST_SAMEPAT && !H.have_order) kind = ST_FRESH;
        if ((kind == ST_SAMEROW || kind == ST_RESOLVE) && !H.factors_ok) kind = H.have_order ? ST_SAMEPAT : ST_FRESH;
        Opts o = base;
        unsigned f = c.u8();
        o.trans = (trans_t)(f % 3); o.equil = (f & 4) != 0; o.refine = (f & 8) ? (IterRefine_t)(1 + (f >> 4) % 3) : NOREFINE; o.condnum = (f & 128) != 0; o.pivgrowth = (f & 64) != 0;
        int nrhs = (int)c.below(3); if (kind == ST_RESOLVE && nrhs == 0) nrhs = 1;
        // With u = 0 the factorization may be arbitrarily unstable; iterative refinement with such factors can make X worse (its
        // last correction is kept unverified), and nothing in the documentation bounds the refined X then.  The plain solve obeys
        // the factor-derived bound whatever the growth, so that is what is judged for u = 0.
        if (base.u == 0.0) o.refine = NOREFINE;
        if (cplx && o.nr && o.trans == CONJ && cx.is_known("F07")) { cx.exclude("F07"); o.trans = TRANS; }
        std::string what = "-";
        std::vector<int> perm_r_before = e.perm_r, perm_c_before = e.perm_c; char equed_before = e.equed[0];
        uint64_t digest_before = H.factors_ok ? factor_digest<T>(&e.L, &e.U, e.perm_r.data(), e.perm_c.data(), n) : 0;
        bool same_values = false;
        GMat Gprev = H.G;
        if (kind == ST_FRESH || kind == ST_SAMEPAT || kind == ST_SAMEROW) {
            if (st > 0) {
                change_values<T>(c, H.G, cplx, single, H.factors_ok ? &e.perm_r : nullptr, H.factors_ok ? &e.perm_c : nullptr, base.u, what);
                if (cx.is_known("F-SS") && maybe_exactly_singular(H.G)) { H.G = Gprev; what = "same values (a singular change was skipped)"; cx.exclude("F-SS"); }
                // single precision: keep the scaling range representable
                if (single) for (auto &col : H.G.col) for (auto &en : col) { if (std::fabs(en.second.re) > 1e15 || (en.second.re != 0 && std::fabs(en.second.re) < 1e-15)) { H.G = Gprev; what = "same values (range)"; } }
            }
            same_values = (what.rfind("same values", 0) == 0) && st > 0;
            Comp<T> fresh = to_comp<T>(H.G, base.nr, nullptr);
            // keep the storage order of the first step (pattern and order of entries are fixed for the whole history)
            { std::map<std::pair<int_t, int_t>, T> mv; int outer = n; for (int kk = 0; kk < outer; ++kk) for (int_t p = fresh.ptr[kk]; p < fresh.ptr[kk + 1]; ++p) mv[{(int_t)kk, fresh.idx[p]}] = fresh.val[p];
              for (int kk = 0; kk < outer; ++kk) for (int_t p = e.S.ptr[kk]; p < e.S.ptr[kk + 1]; ++p) e.S.val[p] = mv[{(int_t)kk, e.S.idx[p]}]; }
        }
        // ---- prepare the call -----------------------------------------------------------------------
        set_default_options(&e.so); apply_opts(o, e.so);
        int_t lwork_call = e.lwork;
        switch (kind) {
        case ST_FRESH: e.destroy_factors(); e.so.Fact = DOFACT; if (base.colperm == MY_PERMC) e.perm_c = base.my_perm_c; break;
        case ST_SAMEPAT: e.destroy_factors(); e.so.Fact = SamePattern; break;
        case ST_SAMEROW: e.so.Fact = SamePattern_SameRowPerm; break;
        case ST_RESOLVE: e.so.Fact = FACTORED; break;
        case ST_QUERY: e.so.Fact = H.factors_ok ? SamePattern_SameRowPerm : (H.have_order ? SamePattern : DOFACT); if (e.so.Fact != SamePattern_SameRowPerm) e.destroy_factors(); if (e.so.Fact == DOFACT && base.colperm == MY_PERMC) e.perm_c = base.my_perm_c; lwork_call = -1; break;
        }
        int ldb = n + (int)(c.u8() % 4u) % 3, ldx = n + (int)(c.u8() % 4u) % 3;   // 0,1,2,0 - independent of each other
        e.nrhs = nrhs; e.ldb = ldb; e.ldx = ldx;
        e.B = gen_rhs<T>(c, n, nrhs, ldb, cplx);
        e.X.assign((size_t)ldx * nrhs + 1, sentinel_value<T>());
        e.ferr.assign(std::max(nrhs, 1), (R)-77); e.berr.assign(std::max(nrhs, 1), (R)-77);
        std::vector<T> B0 = e.B; H.val_in = e.S.val;
        e.bind();
        int_t saved_lwork = e.lwork; e.lwork = lwork_call;
        bool was_live = e.lu_live;
        std::string tag = fmt("step %d %s (%s, Trans=%d Equil=%d Refine=%d nrhs=%d)", st, stepname[kind], what.c_str(), (int)o.trans, (int)o.equil, (int)o.refine, nrhs);
        hist += fmt("%s[%s] ", stepname[kind], what.c_str());
        if (cx.dump) cx.d(tag);
        bool ab = e.call();
        e.lwork = saved_lwork;
        if (ab) { cx.fail("abort", tag + ": library called ABORT: " + vf_abort_msg()); vf_purge(); return false; }
        if (H.user_mem) {   // every byte written on the caller's behalf lies inside [work, work + lwork): the bytes around it keep their fill
            const unsigned char *w0 = H.workbuf.data(), *w = (const unsigned char *)e.work, *wend = H.workbuf.data() + H.workbuf.size();
            bool hit = false; long off = 0;
            for (const unsigned char *q = w0; q < w && !hit; ++q) if (*q != workfill) { hit = true; off = (long)(q - w); }
            for (const unsigned char *q = w + saved_lwork; q < wend && !hit; ++q) if (*q != workfill) { hit = true; off = (long)(q - w); }
            if (hit) { cx.fail("workspace-overrun", tag + fmt(": byte work[%ld] outside the caller's workspace of %lld bytes (base %% 8 = %d) was overwritten", off, (long long)saved_lwork, (int)((uintptr_t)w & 7))); e.lu_live = false; e.teardown(); vf_purge(); return false; }
        }
        long long info = e.info;
        H.steps_done++;
        if (kind == ST_QUERY) {
            e.lu_live = was_live && e.so.Fact == SamePattern_SameRowPerm;
            if (!(info > n)) { cx.fail("query-info", tag + fmt(": size query returned info=%lld", info)); e.teardown(); vf_purge(); return false; }
            if (!bytes_equal(e.S.val, H.val_in) || !bytes_equal(e.B, B0)) { cx.fail("query-modified", tag + ": the size query changed A or B"); e.teardown(); vf_purge(); return false; }
            if (H.factors_ok && factor_digest<T>(&e.L, &e.U, e.perm_r.data(), e.perm_c.data(), n) != digest_before) { cx.fail("query-modified", tag + ": the size query changed the factors or permutations"); e.teardown(); vf_purge(); return false; }
            if (e.so.Fact != SamePattern_SameRowPerm) { H.factors_ok = false; }
            // the query leaves one block of the memory initialisation behind (finding F16)
            H.out_digest = dig(H.out_digest, &info, sizeof info);
            continue;
        }
        if (info < 0 || info > n + 1 || (info == n + 1 && !o.condnum)) {
            if (info > n + 1) { cx.label("out-of-memory-return"); e.lu_live = false; e.teardown(); vf_purge(); return false; }
            cx.fail("info", tag + fmt(": valid call returned info=%lld", info)); e.lu_live = false; e.teardown(); vf_purge(); return false;
        }
        if (kind != ST_RESOLVE) { H.have_order = true; H.factors_ok = (info == 0 || info == n + 1); if (H.factors_ok) { H.A_of_factors = dense_of(to_comp<T>(H.G, false, nullptr)); H.u_of_factors = o.u; } }
        // The first column in pivot order receives no update, so its candidates are its stored entries: whatever the threshold and
        // whatever pivots are remembered, its pivot row must hold a nonzero entry of that column if the column has one (exact).
        if (kind != ST_RESOLVE && kind != ST_QUERY && info >= 0 && info <= n + 1 && info != 1 && is_perm(e.perm_c.data(), n)) {
            int c0 = -1, r0 = -1; for (int j = 0; j < n; ++j) if (e.perm_c[j] == 0) c0 = j; for (int i = 0; i < n; ++i) if (e.perm_r[i] == 0) r0 = i;
            if (c0 >= 0 && r0 >= 0) {
                bool any = false, pivnz = false;
                for (int_t p = e.S.ptr[c0]; p < e.S.ptr[c0 + 1]; ++p) { bool nz = !(e.S.val[p] == T(0)); any = any || nz; if ((int)e.S.idx[p] == r0 && nz) pivnz = true; }
                if (any && !pivnz) { cx.fail("first-pivot-zero", tag + fmt(": the pivot row %d of the first column in pivot order (column %d) holds no nonzero entry of that column although the column has one (info=%lld)", r0, c0, info)); e.lu_live = (info <= n + 1) && e.lu_live; e.teardown(); vf_purge(); return false; }
            }
        }
        if (info >= 1 && info <= n) {
            // "the same guarantees as a fresh factorization of that call's matrix": a re-use step must not report an exactly
            // zero pivot for a matrix that a fresh factorization with the same options factors comfortably
            // (Sound only where a zero pivot column cannot be an accident of the pivot order: the comparison run gets the very
            // same arrays - the order of the entries inside a column decides ties - and the oracle is applied for thresholds
            // u >= 0.1 only.  With u near 0 two legitimate pivot orders differ in stability and either may cancel to an exactly
            // zero column; a first version without these restrictions raised a false alarm in the thorough tier: SamePattern,
            // same values, u = 0, integer matrix with ties, entries stored in another order for the comparison run.)
            if (!light && (kind == ST_SAMEROW || kind == ST_SAMEPAT) && base.u >= 0.1 && !maybe_exactly_singular(H.G)) {
                Expert<T> f; f.init(n, 0, n, n); f.S = e.S; f.S.val = H.val_in; f.B.assign(1, sentinel_value<T>());
                apply_opts(o, f.so); f.so.Fact = DOFACT; f.so.ConditionNumber = YES; f.so.PivotGrowth = NO; f.so.IterRefine = NOREFINE; f.so.Equil = e.so.Equil;
                if (base.colperm == MY_PERMC) f.perm_c = base.my_perm_c;
                f.bind();
                bool fab = f.call(); long long finfo = f.info; double frc = (double)f.rcond;
                if (!fab) f.teardown(); else f.lu_live = false;
                if (!fab && finfo == 0 && frc > (single ? 1e-3 : 1e-8)) {
                    cx.fail("reuse-reports-singular", tag + fmt(": info=%lld (an exactly zero pivot) although a fresh factorization of the same matrix with the same options succeeds with rcond=%.3g", info, frc));
                    e.teardown(); vf_purge(); return false;
                }
            }
            cx.label("singular-return"); H.out_digest = dig(H.out_digest, &info, sizeof info); continue;
        }
        // ---- oracles -----------------------------------------------------------------------------------
        // "identical values" for the pivot-reuse corollary means: the matrix as factored now (after equilibration) is
        // bit-identical to the one the remembered pivots come from
        same_values = (kind == ST_SAMEROW) && bytes_equal(e.S.val, H.factored_vals);
        if (kind != ST_RESOLVE) H.factored_vals = e.S.val;
        if (!light) {
            if (!judge_step<T>(cx, H, kind, o, H.val_in, B0, nrhs, ldb, ldx, perm_r_before, digest_before, equed_before, same_values, tag.c_str())) { e.teardown(); vf_purge(); return false; }
            if (cx.skipped) { e.teardown(); vf_purge(); return false; }
        }
        else {
            // light mode (C19): no numeric oracle, but the structural predicate is cheap and catches factor objects whose pointers
            // were not refreshed after storage moved (stale pointers inside a caller workspace are invisible to ASan)
            FactorShape fs;
            if (!is_perm(e.perm_r.data(), n) || !is_perm(e.perm_c.data(), n)) { cx.fail("perm", tag + ": perm_r / perm_c is not a bijection"); e.teardown(); vf_purge(); return false; }
            if (!check_structure<T>(cx, &e.L, &e.U, n, n, false, fs)) { cx.msg = tag + ": " + cx.msg; e.teardown(); vf_purge(); return false; }
        }
        if (kind == ST_SAMEROW || kind == ST_SAMEPAT) { if (e.stat.expansions > 0) H.reuse_expansions++; H.last_was_reuse = true; }
        else if (kind == ST_RESOLVE) { if (H.last_was_reuse && o.trans != NOTRANS) H.resolves_after_reuse++; }
        else H.last_was_reuse = false;
        // digest of every defined output of this step
        H.out_digest = dig(H.out_digest, &info, sizeof info);
        H.out_digest = dig(H.out_digest, e.equed, 1);
        for (int j = 0; j < nrhs; ++j) H.out_digest = dig(H.out_digest, &e.X[(size_t)j * ldx], sizeof(T) * (size_t)n);
        H.out_digest = dig(H.out_digest, e.S.val.data(), sizeof(T) * e.S.val.size());
        H.out_digest = dig(H.out_digest, e.B.data(), sizeof(T) * e.B.size());
        uint64_t fd = factor_digest<T>(&e.L, &e.U, e.perm_r.data(), e.perm_c.data(), n); H.out_digest = dig(H.out_digest, &fd, sizeof fd);
        if (nrhs > 0) { H.out_digest = dig(H.out_digest, e.ferr.data(), sizeof(R) * (size_t)nrhs); H.out_digest = dig(H.out_digest, e.berr.data(), sizeof(R) * (size_t)nrhs); }
        if (o.condnum) H.out_digest = dig(H.out_digest, &e.rcond, sizeof(R));
        if (o.pivgrowth) H.out_digest = dig(H.out_digest, &e.rpg, sizeof(R));
        if (e.rowequ()) H.out_digest = dig(H.out_digest, e.Rs.data(), sizeof(R) * (size_t)n);
        if (e.colequ()) H.out_digest = dig(H.out_digest, e.Cs.data(), sizeof(R) * (size_t)n);
    }
    if (cx.dump) cx.d("history: " + hist);
    e.teardown();
    return true;
}

}  // namespace vf
