// Run part of a case in a forked child so that a crash or a hang of the library becomes an
// observable outcome instead of the end of the search process (used where a crash is a
// legitimate *finding class*: C04 structurally singular inputs, C08 workspace sweeps).
#pragma once
#include "core.hpp"
#include <sys/mman.h>
#include <sys/wait.h>
#include <csignal>
#include <unistd.h>

namespace vf {

inline bool &in_child() { static bool v = false; return v; }

struct IsoResult {
    enum Status { OK, CRASH, HANG } status = OK;
    int detail = 0;   // signal number or exit code
};

inline std::string ctx_serialize(const Ctx &cx)
{
    auto join = [](const std::vector<std::string> &v) { std::string s; for (auto &x : v) { s += x; s += '\x1e'; } return s; };
    std::string s;
    s += cx.failed ? "1" : "0"; s += '\x1f';
    s += cx.oracle; s += '\x1f'; s += cx.msg; s += '\x1f';
    s += cx.nontrivial ? "1" : "0"; s += '\x1f';
    s += cx.skipped ? "1" : "0"; s += '\x1f'; s += cx.skip_reason; s += '\x1f';
    s += join(cx.labels); s += '\x1f'; s += join(cx.excluded); s += '\x1f';
    return s;
}

inline void ctx_merge(Ctx &cx, const std::string &s)
{
    std::vector<std::string> f; std::string cur;
    for (char ch : s) { if (ch == '\x1f') { f.push_back(cur); cur.clear(); } else cur += ch; }
    if (f.size() < 8) return;
    auto split = [](const std::string &v) { std::vector<std::string> o; std::string c; for (char ch : v) { if (ch == '\x1e') { o.push_back(c); c.clear(); } else c += ch; } return o; };
    if (f[0] == "1") { cx.failed = true; cx.oracle = f[1]; cx.msg = f[2]; }
    if (f[3] == "1") cx.nontrivial = true;
    if (f[4] == "1") { cx.skipped = true; cx.skip_reason = f[5]; }
    for (auto &l : split(f[6])) cx.labels.push_back(l);
    for (auto &l : split(f[7])) cx.excluded.push_back(l);
}

// body(cx) runs in a child process; its effect on cx (failure, labels, ...) is merged back.
template <class F> inline IsoResult run_isolated(Ctx &cx, F &&body, unsigned timeout_s)
{
    const size_t SZ = 1 << 16;
    char *shm = (char *)mmap(nullptr, SZ, PROT_READ | PROT_WRITE, MAP_SHARED | MAP_ANONYMOUS, -1, 0);
    IsoResult r;
    if (shm == (char *)MAP_FAILED) { body(cx); return r; }
    shm[0] = 0;
    pid_t pid = fork();
    if (pid < 0) { munmap(shm, SZ); body(cx); return r; }
    if (pid == 0) {
        in_child() = true;
        signal(SIGALRM, SIG_DFL);
        alarm(timeout_s);
        Ctx local = cx; local.labels.clear(); local.excluded.clear();
        body(local);
        std::string s = ctx_serialize(local);
        if (s.size() + 2 > SZ) s.resize(SZ - 2);
        std::memcpy(shm + 1, s.data(), s.size()); shm[1 + s.size()] = 0; shm[0] = 1;
        _exit(0);
    }
    int st = 0;
    while (waitpid(pid, &st, 0) < 0 && errno == EINTR) {}
    if (WIFEXITED(st) && WEXITSTATUS(st) == 0 && shm[0] == 1) { ctx_merge(cx, std::string(shm + 1)); r.status = IsoResult::OK; }
    else if (WIFSIGNALED(st) && WTERMSIG(st) == SIGALRM) { r.status = IsoResult::HANG; r.detail = SIGALRM; }
    else { r.status = IsoResult::CRASH; r.detail = WIFSIGNALED(st) ? WTERMSIG(st) : WEXITSTATUS(st); }
    munmap(shm, SZ);
    return r;
}

}  // namespace vf
