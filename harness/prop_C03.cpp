// C03 - returned L and U are structurally well-formed (complete LU and ILU).
#include "expert.hpp"
#include <map>

namespace vf {

template <class T> static void run_T(Choice &c, Ctx &cx)
{
    typedef typename Wide<T>::W W; typedef typename Tr<T>::R R;
    const bool cplx = Tr<T>::is_complex, single = sizeof(R) == 4;
    unsigned mode = c.below(8);       // 0..4 ?gstrf direct (tall allowed), 5 ?gssvx, 6,7 ?gsisx (incomplete LU)
    bool direct = mode <= 4, ilu = mode >= 6;
    int n = gen_size(c, cx.tier);
    int m = n;
    if (direct) { static const unsigned w[] = {10, 2, 2, 1, 1}; m = n + (int)c.weighted(w); }
    std::string family;
    // bias toward patterns with wide supernodes and non-empty U columns
    auto pat = gen_pattern(c, m, n, PAT_NONSING, family);
    GMat G = gen_values(c, m, n, pat, cplx, single, family);
    Opts o = gen_opts(c, n, single, m == n, !direct);
    IluOpts io; if (ilu) { io = gen_ilu_opts(c); route_ilu(io, cx); }
    if (direct) o.nr = false;
    cx.hash = fnv1a(c.d, c.consumed(), 0xC03ULL ^ ((uint64_t)Tr<T>::letter << 32));
    if (cx.dump) { cx.d(fmt("mode=%s m=%d n=%d", direct ? "sp_preorder+gstrf" : (ilu ? "gsisx" : "gssvx"), m, n)); cx.d(opts_str(o, !direct)); if (ilu) cx.d(ilu_str(io)); cx.d(gmat_str(G, cplx)); }
    cx.label(std::string("mode=") + (direct ? "gstrf" : (ilu ? "gsisx" : "gssvx")));
    cx.label("family=" + G.family);
    cx.label(o.tune.stock ? "tuning=stock" : fmt("relax=%d", o.tune.v[2]));
    if (cx.is_known("F-SS") && !ilu && maybe_exactly_singular(G)) { cx.exclude("F-SS"); cx.label("exactly-singular(excluded)"); return; }
    vf_case_begin(cx.fill(0xA5));
    apply_tuning(o.tune);
    FactorShape fs; bool ok = false; bool degenerate = false; long long info = -999;
    if (direct) {
        Comp<T> S = to_comp<T>(G, false, o.shuffle_rows ? &c : nullptr);
        Dense<W> AA = dense_of(S);
        superlu_options_t so; set_default_options(&so); apply_opts(o, so);
        std::vector<int> perm_r(m, -1), perm_c(n, -1), etree(n, -1);
        if (o.colperm == MY_PERMC) perm_c = o.my_perm_c;
        MatView<T> A; A.create(S);
        SuperMatrix L, U, AC; std::memset(&L, 0, sizeof L); std::memset(&U, 0, sizeof U);
        SuperLUStat_t stat; StatInit(&stat); GlobalLU_t Glu; int_t inf = -999; bool have_ac = false;
        VF_GUARDED(cx, "gstrf", [&] {
            if (o.colperm != MY_PERMC) get_perm_c((int)o.colperm, &A.A, perm_c.data());
            sp_preorder(&so, &A.A, perm_c.data(), etree.data(), &AC); have_ac = true;
            Tr<T>::gstrf(&so, &AC, sp_ienv(2), sp_ienv(1), etree.data(), nullptr, 0, perm_c.data(), perm_r.data(), &L, &U, &Glu, &stat, &inf);
        });
        info = inf;
        bool exist = info >= 0 && info <= n;
        LUDecoded<T> dec;
        if (info == 0) { ok = check_lu<T>(cx, AA, perm_r.data(), perm_c.data(), &L, &U, o.u, true, false, dec); fs = dec.fs; degenerate = dec.degenerate; }
        if (exist) { Destroy_SuperNode_Matrix(&L); Destroy_CompCol_Matrix(&U); }
        if (have_ac) Destroy_CompCol_Permuted(&AC);
        A.destroy(); StatFree(&stat);
        if (info < 0 || info > n) { vf_purge(); VF_FAIL(cx, "info", "valid call returned info=%lld", info); }
    } else {
        Expert<T> e; e.init(n, 0, n, n); e.ilu = ilu;
        e.S = to_comp<T>(G, o.nr, o.shuffle_rows ? &c : nullptr);
        e.B.assign(1, sentinel_value<T>());
        if (ilu) { ilu_set_default_options(&e.so); }
        apply_opts(o, e.so);
        if (ilu) { apply_ilu(io, e.so); e.so.IterRefine = NOREFINE; }
        if (cplx && o.nr && o.trans == CONJ && cx.is_known("F07")) e.so.Trans = TRANS;   // no solve here (nrhs=0); keep clear of the known class anyway
        if (o.colperm == MY_PERMC) e.perm_c = o.my_perm_c;
        if (ilu && cx.is_known("F-MC64") && mc64_breaks_on(e)) { cx.exclude("F-MC64"); cx.label("F-MC64:not-a-bijection(direct ldperm call on the driver's input)"); vf_purge(); return; }
        e.bind();
        if (e.call()) {
            if (ilu) { cx.label("ilu-breakdown(C15)"); vf_purge(); return; }   // an aborting ILU is judged by C15
            cx.fail("abort", fmt("gssvx: library called ABORT: %s", vf_abort_msg())); vf_purge(); return;
        }
        info = e.info;
        if (info < 0 || info > n + 1) { e.lu_live = false; e.teardown(); vf_purge(); VF_FAIL(cx, "info", "valid call returned info=%lld", info); }
        bool success = ilu ? (info <= n + 1) : (info == 0 || info == n + 1);
        if (success) {
            if (ilu) {
                ok = is_perm(e.perm_r.data(), n) && is_perm(e.perm_c.data(), n);
                // a broken-down ILU (perm_r incomplete) is C15's business, not a structure question
                if (!ok) { cx.label("ilu-breakdown(C15)"); e.teardown(); vf_purge(); return; }
                ok = check_structure<T>(cx, &e.L, &e.U, n, n, true, fs);
            } else {
                Dense<W> AAeq = factored_matrix(e);
                LUDecoded<T> dec;
                ok = check_lu<T>(cx, AAeq, e.perm_r.data(), e.perm_c.data(), &e.L, &e.U, o.u, true, false, dec); fs = dec.fs; degenerate = dec.degenerate;
                // the structure must also be consistent after the factors were re-used for a matrix with other values
                // (SamePattern_SameRowPerm): remembered pivots may be abandoned, fill and supernodes change
                if (ok && !degenerate && c.chance(128)) {
                    GMat G2 = G; ValGen g; g.kind = c.chance(128) ? 1 : 0; g.cmode = 0; g.expK = 0; g.explicit_zero = false;
                    for (auto &col : G2.col) for (auto &en : col) en.second = g.value(c, cplx);
                    if (!(cx.is_known("F-SS") && maybe_exactly_singular(G2))) {
                        Comp<T> fresh = to_comp<T>(G2, o.nr, nullptr);
                        std::map<std::pair<int_t, int_t>, T> mv; for (int kk = 0; kk < n; ++kk) for (int_t p = fresh.ptr[kk]; p < fresh.ptr[kk + 1]; ++p) mv[{(int_t)kk, fresh.idx[p]}] = fresh.val[p];
                        for (int kk = 0; kk < n; ++kk) for (int_t p = e.S.ptr[kk]; p < e.S.ptr[kk + 1]; ++p) e.S.val[p] = mv[{(int_t)kk, e.S.idx[p]}];
                        e.so.Fact = SamePattern_SameRowPerm;
                        if (e.call()) { cx.fail("abort", fmt("gssvx(SamePattern_SameRowPerm): library called ABORT: %s", vf_abort_msg())); vf_purge(); return; }
                        if (e.info == 0 || e.info == n + 1) {
                            Dense<W> AA2 = factored_matrix(e); LUDecoded<T> dec2;
                            ok = check_lu<T>(cx, AA2, e.perm_r.data(), e.perm_c.data(), &e.L, &e.U, o.u, false, false, dec2);
                            if (!ok) cx.msg = "after re-use with SamePattern_SameRowPerm: " + cx.msg;
                            fs = dec2.fs; degenerate = dec2.degenerate; cx.label("refactored-same-row-perm");
                        } else if (e.info > n + 1 || e.info < 0) { e.lu_live = false; }
                        info = e.info;
                    }
                }
            }
        }
        e.teardown();
        if (!success) { cx.label("singular-return"); vf_purge(); return; }
    }
    if (info > 0 && !ilu && info <= n) { cx.label("singular-return"); ledger_clean(cx, "after singular return"); return; }
    if (!ok) { vf_purge(); return; }
    if (!ledger_clean(cx, "after destroying the factors")) return;
    if (degenerate) { cx.skip("overflow-degenerate"); return; }
    cx.label(fmt("maxwidth=%d", std::min(fs.max_width, 8)));
    if (fs.multi) cx.label("supernodes=multi");
    if (fs.u_nonempty) cx.label("U-nonempty");
    if (m > n) cx.label("tall");
    cx.nontrivial = fs.multi >= 1 && fs.u_nonempty;
}

static void run(char type, Choice &c, Ctx &cx)
{
    switch (type) {
    case 's': run_T<float>(c, cx); break;
    case 'd': run_T<double>(c, cx); break;
    case 'c': run_T<cfloat>(c, cx); break;
    default: run_T<cdouble>(c, cx); break;
    }
}

const PropInfo vf_prop = {
    "C03",
    "m x n matrices (15 pattern families, block-diagonal/arrow/dense for wide supernodes) under every tuning (relax 1..8, maxsuper relax..12, panel 1..8, fill 1..30) "
    "factored by sp_preorder+?gstrf (tall allowed), ?gssvx, or ?gsisx (incomplete LU, all drop rules); oracle: validity predicate over SCformat/NCformat - supernode ranges partition the columns, "
    "shared row list starts with the supernode's own columns in order followed by distinct rows below it, non-first columns point at the end of the list, value-pointer differences equal the list length, "
    "U rows strictly above the supernode without repeats (ILU: repeats allowed), arrays addressable for the implied lengths, L.nnz/U.nnz equal the implied counts; complete LU also reconstructs Pr*A*Pc; "
    "non-trivial = at least one supernode with >= 2 columns and a non-empty U column; distinct = hash of consumed stream prefix and type",
    run, "sdcz"};

}  // namespace vf
