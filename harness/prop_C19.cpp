// C19 - no memory error or leak over any documented API lifecycle; results do not depend on uninitialised memory.
#include "history.hpp"

namespace vf {

// (a) expert-driver lifecycles: create, order, factor, solve, refine, condition, re-factor, query, destroy
template <class T> static void run_lifecycle(Choice &c0, Ctx &cx)
{
    static const unsigned char fills[3][2] = {{0x00, 0x00}, {0xFF, 0xFF}, {0xA5, 0x3C}};
    uint64_t dg[3] = {0, 0, 0}; int stepsdone[3] = {0, 0, 0};
    size_t start = c0.pos;
    bool nt = false; size_t consumed = 0;
    for (int r = 0; r < 3; ++r) {
        Choice c(c0.d, c0.n); c.pos = start; c.tail = c0.tail;
        HistState<T> H;
        Ctx sub = cx; sub.labels.clear(); sub.excluded.clear(); sub.dump = cx.dump && r == 0;
        unsigned char hf = fills[r][0], wf = fills[r][1];
        if (r == 2) { hf = (unsigned char)(0x11 * (1 + (c0.n ? c0.d[start % c0.n] : 0) % 14)); wf = (unsigned char)~hf; }
        if (cx.fill_override >= 0) hf = (unsigned char)cx.fill_override;
        bool done = run_history<T>(c, sub, true, hf, wf, H, true);
        consumed = std::max(consumed, c.pos);
        if (sub.failed) { cx.fail(sub.oracle.c_str(), fmt("[heap fill 0x%02x] ", hf) + sub.msg); vf_purge(); c0.pos = consumed; return; }
        for (auto &l : sub.excluded) if (r == 0) cx.exclude(l.c_str());
        if (r == 0) for (auto &l : sub.labels) cx.label(l);
        if (!done) { vf_purge(); if (r == 0) { c0.pos = consumed; return; } }
        long live = vf_live_blocks(); const vf_stats_t *vs = vf_stats();
        if (vs->bad_frees) { cx.fail("bad-free", fmt("[heap fill 0x%02x] %ld free(s) of a pointer that is not a live block", hf, vs->bad_frees)); vf_purge(); c0.pos = consumed; return; }
        if (live) {
            char b[300]; vf_describe_live(b, sizeof b, 8);
            bool only_f16 = true; std::string sb(b); // the size query's leftover is the memory initialisation's expander table
            if (sb.find("LUMemInit") == std::string::npos) only_f16 = false;
            if (only_f16 && cx.is_known("F16")) { if (r == 0) cx.exclude("F16"); vf_purge(); }
            else { cx.fail("leak", fmt("[heap fill 0x%02x] %ld block(s) still allocated after the caller destroyed everything it was handed: %s", hf, live, b)); vf_purge(); c0.pos = consumed; return; }
        }
        dg[r] = H.out_digest; stepsdone[r] = H.steps_done;
        if (r == 0) { nt = H.reuse_expansions > 0 || H.steps_done >= 3; if (H.user_mem) cx.label("caller-workspace"); cx.label(fmt("steps=%d", std::min(H.steps_done, 12))); }
    }
    c0.pos = consumed;
    if (stepsdone[0] != stepsdone[1] || stepsdone[0] != stepsdone[2] || dg[0] != dg[1] || dg[0] != dg[2])
        VF_FAIL(cx, "garbage-fill-dependence", "the same lifecycle gives different defined outputs when fresh heap blocks / the workspace are pre-filled with 0x00, 0xFF and another pattern (digests %016llx %016llx %016llx; steps %d %d %d): a result depends on uninitialised memory",
                (unsigned long long)dg[0], (unsigned long long)dg[1], (unsigned long long)dg[2], stepsdone[0], stepsdone[1], stepsdone[2]);
    cx.label("lifecycle=expert-history");
    cx.nontrivial = nt;
}

// (b) factor-routine lifecycles ending in every exit class
template <class T> static void run_factor_exits(Choice &c, Ctx &cx)
{
    GMat G;
    FactorProblem<T> P = gen_factor_problem<T>(c, cx, cx.tier, true, true, &G, 10);
    int k = std::min(P.m, P.n);
    unsigned exitk = c.below(4);     // 0 success (library), 1 success/shortage (caller workspace), 2 injected growth failure, 3 tiny workspace
    StorageCfg cf; static const int fl[] = {1, 2, 3, 5, 1, 2, 30, 1}; cf.fill = fl[c.below(8)]; if (P.stress) cf.fill = 1;
    long fault = 0;
    if (cx.dump) { cx.d(fmt("%s m=%d n=%d exit-class=%u fill=%d", P.ilu ? "gsitrf" : "gstrf", P.m, P.n, exitk, cf.fill)); cx.d(opts_str(P.o, false)); if (P.ilu) cx.d(ilu_str(P.io)); cx.d(gmat_str(G, Tr<T>::is_complex)); }
    if (cx.is_known("F-SS") && maybe_exactly_singular(G)) { cx.exclude("F-SS"); return; }
    if (exitk == 1 || exitk == 3) {
        StorageCfg q = cf; q.lwork = -1; FactorOutcome qo = factor_once<T>(P, q, 0xA5, false);
        long est = std::max<long>(64, (long)qo.info - P.n);
        cf.lwork = exitk == 3 ? 1 + (long)c.below(256) : (long)(est / 2) + (long)(c.u16() % (unsigned)(2 * est + 1));
        cf.misalign = pick_misalign(c.chance(128), cx);
    } else if (exitk == 2) fault = 1 + (long)c.below(8);
    static const unsigned char fills[3] = {0x00, 0xFF, 0x5A};
    if (!cx.is_known("F04")) vf_nofork_flag() = true;     // finding F04 (workspace crashes / hangs) is fixed: no isolation needed
    FactorOutcome o[3];
    for (int r = 0; r < 3; ++r) {
        StorageCfg cr = cf; cr.workfill = (unsigned char)~fills[r];
        unsigned char hf = cx.fill_override >= 0 ? (unsigned char)cx.fill_override : fills[r];
        if (cf.lwork > 0) { IsoResult ir = factor_isolated<T>(P, cr, hf, true, o[r], 10, fault); if (ir.status != IsoResult::OK) VF_FAIL(cx, ir.status == IsoResult::HANG ? "hang" : "crash", "[%s, heap fill 0x%02x] the factorization %s", cr.str().c_str(), hf, ir.status == IsoResult::HANG ? "did not return within 10 s" : "crashed"); }
        else o[r] = factor_once<T>(P, cr, hf, true, fault);
        if (o[r].aborted) VF_FAIL(cx, "abort", "[%s] library called ABORT: %s", cr.str().c_str(), o[r].abort_msg.c_str());
        if (!o[r].canary_ok) VF_FAIL(cx, "workspace-overrun", "[%s] %s", cr.str().c_str(), o[r].canary_msg.c_str());
        if (!o[r].structure_ok) VF_FAIL(cx, o[r].structure_oracle.c_str(), "[%s] %s", cr.str().c_str(), o[r].structure_msg.c_str());
        if (!o[r].identity_ok) VF_FAIL(cx, o[r].identity_oracle.c_str(), "[%s] %s", cr.str().c_str(), o[r].identity_msg.c_str());
        if (o[r].leak) { if (o[r].info > k && cx.is_known("F16")) { if (r == 0) cx.exclude("F16"); } else VF_FAIL(cx, "leak", "[%s, heap fill 0x%02x] %s", cr.str().c_str(), hf, o[r].leak_msg.c_str()); }
    }
    bool same = o[0].info == o[1].info && o[0].info == o[2].info && o[0].digest == o[1].digest && o[0].digest == o[2].digest;
    if (!same) VF_FAIL(cx, "garbage-fill-dependence", "[%s] info/digest differ with the fill of fresh heap blocks and of the workspace: info %lld %lld %lld, digests %016llx %016llx %016llx", cf.str().c_str(), o[0].info, o[1].info, o[2].info,
                       (unsigned long long)o[0].digest, (unsigned long long)o[1].digest, (unsigned long long)o[2].digest);
    const char *cls = o[0].info == 0 ? "exit=success" : (o[0].info > k ? "exit=out-of-space" : "exit=singular-or-ilu-info");
    cx.label(cls); cx.label("lifecycle=factor-routine"); if (o[0].glu_exp > 0) cx.label("expansions>0");
    cx.nontrivial = o[0].glu_exp > 0 || o[0].info > k;
}

template <class T> static void run_T(Choice &c, Ctx &cx)
{
    unsigned k = c.below(8);
    if (k <= 4) run_lifecycle<T>(c, cx); else run_factor_exits<T>(c, cx);
    cx.hash = fnv1a(c.d, c.consumed(), 0xC19ULL ^ ((uint64_t)Tr<T>::letter << 32));
}

static void run(char type, Choice &c, Ctx &cx)
{
    switch (type) {
    case 's': run_T<float>(c, cx); break;
    case 'd': run_T<double>(c, cx); break;
    case 'c': run_T<cfloat>(c, cx); break;
    default: run_T<cdouble>(c, cx); break;
    }
}

const PropInfo vf_prop = {
    "C19",
    "lifecycles under ASan+UBSan with the allocation ledger: (a) expert-driver histories of 2..12 calls over one pattern (fresh factorization, reuse of ordering, reuse of ordering and pivots, re-solve with any Trans, refinement, condition estimate, size query), "
    "library allocation or a caller workspace, fill estimate 1..2 so that array ends meet their capacity; (b) factor-routine lifecycles (?gstrf / ?gsitrf, tall allowed) ending in every exit class: success, out of space with a short or tiny workspace, "
    "an injected growth failure; every lifecycle is executed three times with fresh heap blocks and the workspace pre-filled with 0x00, 0xFF and a case-chosen pattern; "
    "oracle: no sanitizer report, no invalid or double free, ledger balance zero after the caller destroyed what it was handed, guard zones intact, and bit-identical defined outputs (X, factors, permutations, scale factors, error bounds, info) "
    "across the three fills - a difference means a result depends on uninitialised memory; the readers, kernels, bridge and all other drivers run under the same instrumentation in C01-C18 and C20; "
    "non-trivial = >= 3 calls or a reuse step with an expansion, or a factor-routine lifecycle with an expansion or an out-of-space exit; distinct = hash of consumed stream prefix and type",
    run, "sdcz"};

}  // namespace vf
