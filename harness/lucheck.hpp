// Shared oracle for a successful complete factorization (C02 + C03), reused by C01, C05, C06, C07, C15.
#pragma once
#include "drive.hpp"

namespace vf {

template <class T> struct LUDecoded {
    typedef typename Wide<T>::W W;
    Dense<W> Ld, Ud;
    Dense<LD> E;            // |Ld||Ud|
    FactorShape fs;
    int offdiag_pivots = 0; // columns whose pivot row is not the "diagonal" row
    int diag_preferred = 0; // columns where the diagonal was chosen although a larger candidate existed
    bool degenerate = false;
};

template <class R> inline bool is_pow2(R x) { if (x == 0 || !std::isfinite(x)) return false; int e; R f = std::frexp(std::fabs(x), &e); return f == (R)0.5; }

// AA: the m x n matrix that was factored (dense reference).  perm_r: size m, perm_c: size n.
// check_pref: assert the diagonal-preference clause (not when pivots of an earlier
// factorization are reused).  upto: number of leading columns that form a valid
// factorization (n on success).
template <class T>
inline bool check_lu(Ctx &cx, const Dense<typename Wide<T>::W> &AA, const int *perm_r, const int *perm_c,
                     const SuperMatrix *L, const SuperMatrix *U, double u, bool check_pref, bool ilu, LUDecoded<T> &out, int upto = -1)
{
    typedef typename Wide<T>::W W; typedef typename Tr<T>::R R;
    int m = AA.m, n = AA.n, k = std::min(m, n);
    if (upto < 0) upto = k;
    VF_REQUIREB(cx, is_perm(perm_r, m), "perm_r", "perm_r is not a bijection on 0..%d: %s", m - 1, vec_str(std::vector<int>(perm_r, perm_r + m)).c_str());
    VF_REQUIREB(cx, is_perm(perm_c, n), "perm_c", "perm_c is not a bijection on 0..%d: %s", n - 1, vec_str(std::vector<int>(perm_c, perm_c + n)).c_str());
    if (!check_structure<T>(cx, L, U, m, k, ilu, out.fs)) return false;
    decode_factors<T>(L, U, out.Ld, out.Ud);
    if (!all_finite(out.Ld) || !all_finite(out.Ud)) {
        // A non-finite diagonal of U is a violation in its own right; elsewhere treat as overflow-degenerate.
        for (int j = 0; j < upto; ++j) VF_REQUIREB(cx, finite_w(out.Ud(j, j)), "u-diagonal", "U(%d,%d) is not finite", j, j);
        out.degenerate = true; return true;
    }
    out.E = abs_product(out.Ld, out.Ud);
    if (!all_finite(out.E)) { out.degenerate = true; return true; }
    for (int j = 0; j < upto; ++j) VF_REQUIREB(cx, out.Ud(j, j) != W(0), "u-diagonal", "U(%d,%d) is exactly zero on a successful return", j, j);
    if (!ilu && !check_identity<T>(cx, AA, perm_r, perm_c, out.Ld, out.Ud, out.E, upto)) return false;
    if (ilu) return true;
    // multiplier bound and diagonal preference, column by column
    LD uu = Consts<T>::u();
    std::vector<int> ipc(n), ipr(m);
    for (int j = 0; j < n; ++j) ipc[perm_c[j]] = j;
    for (int i = 0; i < m; ++i) ipr[perm_r[i]] = i;
    for (int jj = 0; jj < upto; ++jj) {
        W p = out.Ud(jj, jj);
        LD pm = abs1(p), vmax = pm;
        for (int i = jj + 1; i < m; ++i) {
            W l = out.Ld(i, jj); if (l == W(0)) continue;
            LD v = abs1(l * p);
            if (v > vmax) vmax = v;
            LD bound = pm / (LD)u * (1 + 16 * uu) + Consts<T>::safmin();
            if (!(v <= bound)) VF_FAILB(cx, "multiplier", "column %d: |l(%d,%d)*pivot|=%.6Lg exceeds |pivot|/u=%.6Lg (u=%g): multiplier larger than 1/u", jj, i, jj, v, pm / (LD)u, u);
        }
        int c = ipc[jj];            // original column at position jj; its "diagonal" row is original row c
        if (c >= m) continue;
        int pos = perm_r[c];
        if (pos == jj) { if (vmax > pm * (1 + 16 * uu)) out.diag_preferred++; continue; }
        out.offdiag_pivots++;
        if (!check_pref || pos < jj) continue;   // row c was used as an earlier pivot: not a candidate
        W lc = out.Ld(pos, jj);
        if (lc == W(0)) continue;
        LD vc = abs1(lc * p);
        LD thresh = (LD)u * vmax;
        if (vc > thresh * (1 + 64 * uu) + Consts<T>::safmin())
            VF_FAILB(cx, "diag-preference", "column %d (original column %d): diagonal candidate has magnitude %.6Lg >= u*max = %.6Lg (u=%g) but row %d was chosen as pivot", jj, c, vc, thresh, u, ipr[jj]);
        if (!Tr<T>::is_complex) {
            // exact tie decision when the pivot is a power of two: a = l * p was divided without rounding
            R pr = (R)std::real(p);
            if (is_pow2(pr)) {
                R pivmax = std::fabs(pr); bool exact = true;
                for (int i = jj + 1; i < m; ++i) { R a = (R)std::real(out.Ld(i, jj)) * pr; if (!std::isfinite(a) || (a != 0 && std::fabs(a) < std::numeric_limits<R>::min() * 4)) exact = false; if (std::fabs(a) > pivmax) pivmax = std::fabs(a); }
                R ac = std::fabs((R)std::real(lc) * pr);
                R th = (R)(u * (double)pivmax);
                if (exact && ac != 0 && ac >= th)
                    VF_FAILB(cx, "diag-preference", "column %d (original column %d): exact arithmetic: |diagonal candidate|=%.9g >= u*max=%.9g (u=%g) but row %d was chosen", jj, c, (double)ac, (double)th, u, ipr[jj]);
            }
        }
    }
    return true;
}

// F = Pr^T |L||U| Pc^T  ("|L||U| permuted back"): F(i,j) = E(perm_r[i], perm_c[j]); transposed on request.
inline Dense<LD> permute_back(const Dense<LD> &E, const int *perm_r, const int *perm_c, int n, bool transposed)
{
    Dense<LD> F(n, n);
    for (int j = 0; j < n; ++j) for (int i = 0; i < n; ++i) { LD v = E(perm_r[i], perm_c[j]); if (transposed) F(j, i) = v; else F(i, j) = v; }
    return F;
}

// Componentwise residual bound for the returned solution of Op * X = B0:
//   |B0 - Op*X|_i <= rdiv_i^{-1} * cmult*c*n*u * (F |X ./ ydiv|)_i + 4u (|Op||X| + |B0|)_i + n*u*|B0|_i + tiny
// F: bound matrix matching Op (already transposed if needed). ydiv / rdiv: the scalings applied to the
// solution / right-hand side inside the driver (null = none).
template <class T>
inline bool check_residual(Ctx &cx, const Dense<typename Wide<T>::W> &Op, const Dense<LD> &F, const T *X, int ldx, const T *B0, int ldb,
                           int nrhs, const LD *ydiv, const LD *rdiv, LD cmult, const char *O = "residual", bool normwise_y = false)
{
    typedef typename Wide<T>::W W;
    int n = Op.m;
    LD uu = Consts<T>::u(), tol = cmult * Consts<T>::c() * n * uu;
    for (int j = 0; j < nrhs; ++j) {
        std::vector<LD> ay(n), ax(n);
        for (int i = 0; i < n; ++i) {
            W x = widen<T>(X[(size_t)j * ldx + i]);
            if (!finite_w(x)) { cx.skip("overflow-degenerate"); return true; }
            ax[i] = absm(x); ay[i] = ydiv ? ax[i] / ydiv[i] : ax[i];
        }
        // After iterative refinement the correction dx is only bounded normwise (components of the solution that
        // are exactly zero pick up rounding noise of relative size eps*||x||), so the bound uses ||y||_inf.
        if (normwise_y) { LD mx = 0; for (int i = 0; i < n; ++i) mx = std::max(mx, ay[i]); for (int i = 0; i < n; ++i) ay[i] = mx; }
        for (int i = 0; i < n; ++i) {
            W r = widen<T>(B0[(size_t)j * ldb + i]); LD ab = absm(r), fx = 0, opx = 0;
            for (int k = 0; k < n; ++k) { W a = Op(i, k); if (a != W(0)) { r -= a * widen<T>(X[(size_t)j * ldx + k]); opx += absm(a) * ax[k]; } fx += F(i, k) * ay[k]; }
            LD bound = tol * fx / (rdiv ? rdiv[i] : (LD)1) + 4 * uu * (opx + ab) + n * uu * ab + n * Consts<T>::safmin();
            if (!std::isfinite((double)bound)) { cx.skip("overflow-degenerate"); return true; }
            LD res = absm(r);
            if (!(res <= bound)) VF_FAILB(cx, O, "rhs %d row %d: |b - op(A)x| = %.6Lg exceeds the factor-derived bound %.6Lg (c*n*eps*(|L||U||x|)_i = %.3Lg, |b_i| = %.3Lg, x_i = %s)", j, i, res, bound, tol * fx, ab, w_str(widen<T>(X[(size_t)j * ldx + i])).c_str());
        }
    }
    return true;
}

}  // namespace vf
