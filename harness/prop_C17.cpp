// C17 - the large-diagonal row permutation is a max-product matching with unit scaling (?ldperm job 5).
#include <functional>
#include "drive.hpp"
#include "isolate.hpp"

namespace vf {

template <class T> static void run_T(Choice &c, Ctx &cx)
{
    typedef typename Tr<T>::R R; typedef typename Wide<T>::W W;
    const bool cplx = Tr<T>::is_complex, single = sizeof(R) == 4;
    int n = gen_size(c, cx.tier);
    unsigned pk = c.below(8);
    // larger orders for a part of the cases: MC64's heap (removal from the middle, several augmenting passes) only gets
    // deep enough from about order 10 with fairly full columns
    bool big = false;
    if (c.chance(28)) { n = 24 + (int)c.below(cx.tier > 0 ? 70u : 40u); big = true; }
    PatMode pm = pk <= 4 ? PAT_NONSING : (pk <= 6 ? PAT_ANY : PAT_SINGULAR);
    std::string family;
    // The choice stream is a few hundred bytes long and reads as zero past its end, so an order-60 matrix with thousands of
    // entries cannot take each value from it: the values would all tie.  Most large cases are therefore synthesised from a
    // 64-bit value taken from the stream (a pure function of the stream, so replay and shrinking are unaffected): a hidden
    // transversal plus entries of the chosen density, magnitudes pairwise distinct by construction in every precision
    // (evenly spaced in [0.5,1), optionally times a power of two), random signs.
    const bool synth = big && c.chance(176);
    GMat G;
    if (synth) {
        uint64_t sd = 0; for (int k = 0; k < 8; ++k) sd = (sd << 8) | c.u8();
        auto mix = [](uint64_t x) { x += 0x9E3779B97F4A7C15ULL; x = (x ^ (x >> 30)) * 0xBF58476D1CE4E5B9ULL; x = (x ^ (x >> 27)) * 0x94D049BB133111EBULL; return x ^ (x >> 31); };
        unsigned dens = 8 + c.below(93);            // percent
        unsigned scale = c.below(4);                // 0,1: none; 2: 2^+-8; 3: 2^+-40 (2^+-20 in single precision)
        int K = scale <= 1 ? 0 : (scale == 2 ? 8 : (single ? 20 : 40));
        std::vector<int> tr(n); for (int i = 0; i < n; ++i) tr[i] = i;
        for (int i = 0; i + 1 < n; ++i) { int j = i + (int)(mix(sd ^ (0xA11CEULL + (uint64_t)i)) % (uint64_t)(n - i)); std::swap(tr[i], tr[j]); }
        G.m = G.n = n; G.col.resize(n);
        std::vector<std::pair<uint64_t, std::pair<int, int>>> ord;
        for (int j = 0; j < n; ++j) for (int i = 0; i < n; ++i) {
            uint64_t h = mix(sd ^ ((uint64_t)i * 1315423911ULL + (uint64_t)j * 2654435761ULL + 77));
            bool in = (pm != PAT_SINGULAR && tr[j] == i) || (h % 100) < dens;
            if (pm == PAT_SINGULAR && (i < 2 + (int)(sd % 3)) ) in = false;   // empty rows: no zero-free diagonal
            if (in) ord.push_back({mix(h), {i, j}});
        }
        std::sort(ord.begin(), ord.end());
        size_t N = ord.size();
        for (size_t r = 0; r < N; ++r) {
            int i = ord[r].second.first, j = ord[r].second.second; uint64_t h = ord[r].first;
            double a = 0.5 + ((double)r + 0.5) / (2.0 * (double)N);
            if (K) a = std::ldexp(a, (int)(mix(h ^ 5) % (uint64_t)(2 * K + 1)) - K);
            if (h & 1) a = -a;
            Val v; if (cplx && (h & 2)) { v.re = 0; v.im = a; } else { v.re = a; v.im = 0; }
            G.col[j].push_back({i, v});
        }
        for (auto &col : G.col) std::sort(col.begin(), col.end(), [](const std::pair<int, Val> &x, const std::pair<int, Val> &y) { return x.first < y.first; });
        G.family = fmt("synth-dense%u", dens / 25 * 25); G.vkind = K ? "distinct+scaled" : "distinct";
    } else {
    auto pat = gen_pattern(c, n, n, pm, family);
    G = gen_values(c, n, n, pat, cplx, single, family);
    // widen the magnitude range for some cases (MC64 works on logarithms)
    unsigned wide = c.below(6);
    // (structurally singular patterns get the widest range more often: MC64's 'scaling may overflow' warning must not hide singularity)
    if (pm == PAT_SINGULAR && wide >= 2 && wide <= 3) wide = 5;
    if (wide >= 4) { int K = single ? 30 : (wide == 5 ? 400 : 120); for (auto &col : G.col) for (auto &e : col) { unsigned b = c.u8(); int s = (wide == 5 && (b & 0x80)) ? ((b & 1) ? K : -K) : zigzag((uint8_t)b, K); e.second.re = std::ldexp(e.second.re, s); e.second.im = std::ldexp(e.second.im, s); } G.vkind += "+wide"; }
    }
    // explicit zeros are outside MC64's input contract ("the numerical values of the nonzero entries"): remove them
    for (auto &col : G.col) { std::vector<std::pair<int, Val>> keep; for (auto &e : col) if (e.second.re != 0 || e.second.im != 0) keep.push_back(e); col.swap(keep); }
    bool exsing = maybe_exactly_singular(G);
    cx.label(exsing ? "numerically-singular" : "numerically-nonsingular");
    Comp<T> S = to_comp<T>(G, false, c.chance(128) ? &c : nullptr);
    cx.hash = fnv1a(c.d, c.consumed(), 0xC17ULL ^ ((uint64_t)Tr<T>::letter << 32));
    if (cx.dump) { cx.d(fmt("ldperm(job=5) n=%d", n)); cx.d(gmat_str(G, cplx)); }
    cx.label("family=" + G.family); cx.label("values=" + G.vkind);
    // reference: matching over the numerically nonzero entries
    std::vector<std::vector<int>> nzcols(n);
    Dense<LD> la(n, n); std::vector<std::vector<char>> has(n, std::vector<char>(n, 0));
    LD maxlog = 0;
    for (int j = 0; j < n; ++j) for (int_t p = S.ptr[j]; p < S.ptr[j + 1]; ++p) {
        LD a = abs1(widen<T>(S.val[p]));
        // the library hands MC64 the magnitude computed in working precision
        if (cplx) { R rr = (R)std::fabs((double)std::real(widen<T>(S.val[p]))) + (R)std::fabs((double)std::imag(widen<T>(S.val[p]))); a = (LD)rr; }
        int i = (int)S.idx[p];
        if (a != 0 && std::isfinite((double)a)) { nzcols[j].push_back(i); has[i][j] = 1; la(i, j) = std::log(a); maxlog = std::max(maxlog, std::fabs(la(i, j))); }
    }
    // ties (class of known finding F-MC64): two stored entries of exactly equal magnitude, or - the same thing one level up -
    // two partial matchings on the same rows and columns whose products are equal, i.e. an alternating cycle
    // a(i0,j0) a(i1,j1) ... = a(i0,j1) a(i1,j2) ... (entries of the form m * 2^k with small integers m have many: the
    // powers of two cancel round the cycle).  MC64's reduced costs then tie although no two entries are equal.  Cycles of up
    // to four columns are searched depth-first within a fixed step budget; equality is judged in the log domain to 1e-12.
    bool has_tie = false, product_tie = false;
    { std::vector<LD> mags; for (int j = 0; j < n; ++j) for (int i : nzcols[j]) mags.push_back(la(i, j)); std::sort(mags.begin(), mags.end()); for (size_t k = 1; k < mags.size(); ++k) if (mags[k] == mags[k - 1]) has_tie = true; }
    if (!has_tie) {
        std::vector<std::vector<int>> nzrows(n); for (int j = 0; j < n; ++j) for (int i : nzcols[j]) nzrows[i].push_back(j);
        long budget = 300000; const LD ctol = 1e-12L * (1 + maxlog);
        std::vector<char> rused(n, 0), cused(n, 0);
        std::function<bool(int, int, int, LD)> dfs = [&](int j0, int j, int depth, LD sum) -> bool {
            for (int i : nzcols[j]) { if (rused[i]) continue; if (--budget < 0) return false;
                LD s1 = sum + la(i, j); rused[i] = 1;
                for (int l : nzrows[i]) { if (l == j) continue;
                    if (l == j0) { if (depth >= 2 && std::fabs(s1 - la(i, l)) <= ctol) { rused[i] = 0; return true; } continue; }
                    if (l < j0 || cused[l] || depth >= 4) continue;
                    cused[l] = 1; bool f = dfs(j0, l, depth + 1, s1 - la(i, l)); cused[l] = 0; if (f) { rused[i] = 0; return true; } if (budget < 0) break; }
                rused[i] = 0; if (budget < 0) return false; }
            return false; };
        for (int j0 = 0; j0 < n && !product_tie && budget > 0; ++j0) { cused[j0] = 1; product_tie = dfs(j0, j0, 1, 0); cused[j0] = 0; }
        if (product_tie) has_tie = true;
    }
    cx.label(product_tie ? "product-ties" : has_tie ? "ties" : "tie-free");
    const bool tie_class = has_tie && cx.is_known("F-MC64");
    int msize = max_matching(nzcols, n);
    cx.label(msize == n ? "struct-nonsingular" : "struct-singular");

    // Known finding F-MC64, continued: on inputs with ties MC64's shortest-path search can also leave its tree arrays
    // inconsistent, and then follows uninitialised entries of OUT/PR (SEGV in mc64wd_) or returns a "matching" that is not a
    // bijection.  While the finding is open a tie-holding input is first tried in a child process; if the child dies there
    // the case is counted under the finding and not run here.
    if (tie_class && !in_child()) {
        Comp<T> Sc = S; int n_ = n;
        IsoResult pr = run_isolated(cx, [&](Ctx &) {
            vf_case_begin(cx.fill(0xA5));
            std::vector<int> pp(n_ + 1, -9); std::vector<R> uu_(n_ + 1, (R)0), vv_(n_ + 1, (R)0);
            guarded([&] { Tr<T>::ldperm(5, n_, Sc.nnz(), Sc.ptr.data(), Sc.idx.data(), Sc.val.data(), pp.data(), uu_.data(), vv_.data()); });
        }, 20);
        if (pr.status != IsoResult::OK) { cx.exclude("F-MC64"); cx.label(pr.status == IsoResult::HANG ? "F-MC64:no-return(in MC64)" : "F-MC64:crash(in MC64)"); return; }
    }
    vf_case_begin(cx.fill(0xA5));
    std::vector<int_t> idx0 = S.idx, ptr0 = S.ptr; std::vector<T> val0 = S.val;
    std::vector<int> perm(n + 1, -9); std::vector<R> u(n + 1, (R)-55), v(n + 1, (R)-55);
    int ret = -999;
    VF_GUARDED(cx, "ldperm", [&] { ret = Tr<T>::ldperm(5, n, S.nnz(), S.ptr.data(), S.idx.data(), S.val.data(), perm.data(), u.data(), v.data()); });
    VF_REQUIRE(cx, bytes_equal(S.idx, idx0) && bytes_equal(S.ptr, ptr0), "index-arrays", "colptr/rowind are not returned unchanged (1-based shift not undone?)");
    VF_REQUIRE(cx, bytes_equal(S.val, val0), "values-modified", "the matrix values were modified");
    VF_REQUIRE(cx, perm[n] == -9 && u[n] == (R)-55 && v[n] == (R)-55, "overrun", "ldperm wrote past the end of perm, u or v");
    if (!ledger_clean(cx, "after ldperm")) return;
    cx.label(fmt("ret=%d", ret));
    if (msize < n) { VF_REQUIRE(cx, ret != 0, "singular-not-reported", "the matrix has no zero-free diagonal (maximum matching %d < %d) but ldperm returned 0", msize, n); cx.nontrivial = n >= 3; return; }
    if (!(ret == 0 || ret == 2) && tie_class && ret == 1) { cx.exclude("F-MC64"); cx.label("F-MC64:reported-singular"); return; }
    VF_REQUIRE(cx, ret == 0 || ret == 2, "return-value", "structurally nonsingular matrix (perfect matching exists) but ldperm returned %d", ret);
    if (tie_class && !is_perm(perm.data(), n)) { cx.exclude("F-MC64"); cx.label("F-MC64:perm-not-a-bijection"); return; }
    VF_REQUIRE(cx, is_perm(perm.data(), n), "perm", "perm is not a bijection: %s", vec_str(std::vector<int>(perm.begin(), perm.begin() + n)).c_str());
    if (ret == 2) {
        // "some scaling factors may be too large": only justified when exponentiating a returned dual can come near the
        // overflow threshold of the working precision, i.e. some |u_i| or |v_j| reaches half its logarithm (the library
        // uses log(DBL_MAX)/2 = 354.9 for every type, which satisfies this bound for all four)
        LD big = 0; for (int i = 0; i < n; ++i) if (std::isfinite((double)u[i]) && std::isfinite((double)v[i])) big = std::max(big, std::max(std::fabs((LD)u[i]), std::fabs((LD)v[i]))); else big = 1e9L;
        LD need = 0.5L * std::log((LD)std::numeric_limits<R>::max()) - 1;
        VF_REQUIRE(cx, big >= need, "unjustified-overflow-warning", "ldperm returned 2 (scaling factors may overflow) for a structurally nonsingular matrix whose largest dual is %Lg: exp(%Lg) is nowhere near the overflow threshold of this precision (half its logarithm is %Lg)", big, big, need + 1);
        cx.label("scaling-may-overflow(warning)"); return;
    }
    LD uu = (LD)Tr<T>::eps();
    LD maxuv = 0; for (int i = 0; i < n; ++i) { VF_REQUIRE(cx, std::isfinite((double)u[i]) && std::isfinite((double)v[i]), "scaling", "u[%d]=%g v[%d]=%g not finite", i, (double)u[i], i, (double)v[i]); maxuv = std::max(maxuv, std::max(std::fabs((LD)u[i]), std::fabs((LD)v[i]))); }
    LD tol = 64 * uu * n * (1 + std::max(maxlog, maxuv)) + 1e-12L;
    LD logprod = 0; bool identity = true;
    // Known finding F-MC64: when entries tie in magnitude MC64 (job 5) can return a non-optimal matching and
    // scalings that are not dual feasible.  While it is open, inputs with ties have the optimality and scaling
    // clauses evaluated but only counted; tie-free inputs, and every other clause, stay fully live.
    bool scal_open = tie_class; bool scal_bad = false;
    for (int i = 0; i < n; ++i) {
        int j = perm[i];
        // F-MC64, same root cause: with ties the inconsistent tree arrays can also yield a bijection that sits on an entry that is not stored
        if (tie_class && !has[i][j]) { cx.exclude("F-MC64"); cx.label("F-MC64:zero-on-diagonal"); return; }
        VF_REQUIRE(cx, has[i][j], "zero-on-diagonal", "row %d is moved to position %d but a(%d,%d) is zero or not stored", i, j, i, j);
        LD s = la(i, j) + (LD)u[i] + (LD)v[j];
        if (!(std::fabs(s) <= tol)) { if (scal_open) scal_bad = true; else VF_FAIL(cx, "unit-diagonal", "scaled diagonal entry |a(%d,%d)|*exp(u+v) = exp(%Lg), not 1 (tol %Lg)", i, j, s, tol); }
        logprod += la(i, j); if (j != i) identity = false;
    }
    for (int j = 0; j < n; ++j) for (int i : nzcols[j]) {
        LD s = la(i, j) + (LD)u[i] + (LD)v[j];
        if (!(s <= tol)) { if (scal_open) scal_bad = true; else VF_FAIL(cx, "offdiagonal-bound", "scaled entry |a(%d,%d)|*exp(u+v) = exp(%Lg) exceeds 1 (tol %Lg)", i, j, s, tol); }
    }
    if (scal_bad) { cx.exclude("F-MC64"); cx.label("F-MC64:scaling-not-feasible"); } else cx.label("scaling-certificate-ok");
    // independent cross-check of optimality for small n: brute force over all permutations
    long nperfect = 0;
    if (n <= 7) {
        std::vector<int> p(n); for (int i = 0; i < n; ++i) p[i] = i;
        LD best = -std::numeric_limits<LD>::infinity();
        do { LD s = 0; bool okp = true; for (int i = 0; i < n && okp; ++i) { if (!has[i][p[i]]) okp = false; else s += la(i, p[i]); } if (okp) { ++nperfect; if (s > best) best = s; } } while (std::next_permutation(p.begin(), p.end()));
        if (!(logprod >= best - tol * n)) { if (tie_class) { cx.exclude("F-MC64"); cx.label("F-MC64:not-maximal"); return; } VF_FAIL(cx, "not-maximal", "product of the chosen diagonal is exp(%Lg) but another permutation reaches exp(%Lg)", logprod, best); }
        cx.label("bruteforce-checked");
    }
    if (!identity) cx.label("perm!=identity");
    cx.nontrivial = n >= 3 && !identity && (n > 7 || nperfect >= 2);
}

static void run(char type, Choice &c, Ctx &cx)
{
    switch (type) {
    case 's': run_T<float>(c, cx); break;
    case 'd': run_T<double>(c, cx); break;
    case 'c': run_T<cfloat>(c, cx); break;
    default: run_T<cdouble>(c, cx); break;
    }
}

const PropInfo vf_prop = {
    "C17",
    "square patterns (structurally nonsingular, arbitrary, or structurally singular) with values from small-integer ties to 2^+-400 magnitude ranges, zero diagonals, explicit zeros, through ?ldperm(job=5); "
    "oracle: colptr/rowind/values returned bit-identical; maximum matching over the numerically nonzero entries (augmenting paths) decides structural singularity => nonzero return value; "
    "return 0 => perm is a bijection with a(i,perm[i]) != 0, log|a_ij|+u_i+v_j <= tol on every entry and = 0 +- tol on matched ones (dual feasibility + complementary slackness = optimal product), "
    "cross-checked against brute force over all permutations for n<=7; return 2 (MC64's documented overflow warning) only judged for the bijection; "
    "non-trivial = n>=3, optimum not the identity, at least two perfect matchings; distinct = hash of consumed stream prefix and type",
    run, "sdcz"};

}  // namespace vf
