// One object holding every argument of the expert drivers ?gssvx / ?gsisx, so that
// properties can build call histories, snapshot caller-owned data and compare.
#pragma once
#include "lucheck.hpp"

namespace vf {

template <class T> struct Expert {
    typedef typename Tr<T>::R R; typedef typename Wide<T>::W W;
    int n = 0, nrhs = 0, ldb = 0, ldx = 0;
    Comp<T> S;                       // caller's matrix storage (byrow => SLU_NR)
    std::vector<T> B, X;
    std::vector<int> perm_c, perm_r, etree;
    char equed[2] = {'N', 0};
    std::vector<R> Rs, Cs, ferr, berr;
    R rpg = -1, rcond = -1;
    SuperMatrix L, U;
    MatView<T> A; DenseView<T> Bv, Xv;
    GlobalLU_t Glu; mem_usage_t mu; SuperLUStat_t stat;
    int_t info = -999;
    superlu_options_t so;
    void *work = nullptr; int_t lwork = 0;
    bool lu_live = false;            // L and U hold factors the caller must destroy
    bool stat_live = false;
    bool ilu = false;
    bool aborted = false;

    void init(int n_, int nrhs_, int ldb_, int ldx_) {
        n = n_; nrhs = nrhs_; ldb = ldb_; ldx = ldx_;
        perm_c.assign(n, -1); perm_r.assign(n, -1); etree.assign(n, -1);
        Rs.assign(n, (R)-77); Cs.assign(n, (R)-77); ferr.assign(std::max(nrhs, 1), (R)-77); berr.assign(std::max(nrhs, 1), (R)-77);
        X.assign((size_t)ldx * std::max(nrhs, 0) + 1, sentinel_value<T>());
        std::memset(&L, 0, sizeof L); std::memset(&U, 0, sizeof U); std::memset(&Glu, 0, sizeof Glu); std::memset(&mu, 0, sizeof mu);
        set_default_options(&so);
    }
    void bind() {   // (re)create the SuperMatrix views over S, B, X
        A.destroy(); Bv.destroy(); Xv.destroy();
        A.create(S); Bv.create(n, nrhs, B.data(), ldb); Xv.create(n, nrhs, X.data(), ldx);
    }
    // Returns true when the library called ABORT.
    bool call() {
        if (stat_live) { StatFree(&stat); stat_live = false; }   // a fresh statistics object per call, as the examples do
        StatInit(&stat); stat_live = true;
        info = -999;
        aborted = guarded([&] {
            if (ilu) Tr<T>::gsisx(&so, &A.A, perm_c.data(), perm_r.data(), etree.data(), equed, Rs.data(), Cs.data(), &L, &U, work, lwork, &Bv.X, &Xv.X, &rpg, &rcond, &Glu, &mu, &stat, &info);
            else Tr<T>::gssvx(&so, &A.A, perm_c.data(), perm_r.data(), etree.data(), equed, Rs.data(), Cs.data(), &L, &U, work, lwork, &Bv.X, &Xv.X, &rpg, &rcond, ferr.data(), berr.data(), &Glu, &mu, &stat, &info);
        }) != 0;
        if (!aborted && so.Fact != FACTORED && lwork != -1) lu_live = (info >= 0 && info <= n + 1);
        return aborted;
    }
    void destroy_factors() {
        if (!lu_live) return;
        if (lwork > 0) { Destroy_SuperMatrix_Store(&L); Destroy_SuperMatrix_Store(&U); }   // USER workspace: documented protocol
        else { Destroy_SuperNode_Matrix(&L); Destroy_CompCol_Matrix(&U); }
        lu_live = false;
    }
    void teardown() {
        destroy_factors();
        A.destroy(); Bv.destroy(); Xv.destroy();
        if (stat_live) { StatFree(&stat); stat_live = false; }
    }
    bool rowequ() const { return equed[0] == 'R' || equed[0] == 'B'; }
    bool colequ() const { return equed[0] == 'C' || equed[0] == 'B'; }
};

// Known finding F-MC64 seen through ?gsisx with RowPerm = LargeDiag_MC64: on a matrix whose magnitudes tie, MC64 (job 5) can
// return 0 with a "permutation" that is not a bijection (or that sits on an entry that is not stored); the driver folds it into
// perm_r and factors a matrix with duplicated rows.  The class is recognised at its call site, not by its consequences: the
// arrays the driver is about to hand to MC64 are passed to ?ldperm(5) directly, and the case belongs to the finding only if
// (a) two stored entries have exactly equal magnitude or two 2x2 partial matchings have equal products, and (b) that direct
// call returns 0 with a non-bijection.  Everything else - in particular any wrong result for a matrix on which MC64 itself
// behaves - stays a violation.  Call before the driver (the driver scales and permutes its copy of the values in place).
template <class T> inline bool mc64_breaks_on(const Expert<T> &e)
{
    typedef typename Tr<T>::R R;
    if (!e.ilu || e.so.RowPerm != LargeDiag_MC64 || e.so.Fact == FACTORED || e.lwork == -1) return false;
    const int n = e.n; const Comp<T> &S = e.S;
    // (a) ties, in the magnitudes the library computes (working precision, |re|+|im|)
    std::vector<std::vector<std::pair<int, long double>>> col(n);   // compressed view as handed over: outer index = "column"
    std::vector<long double> mags;
    for (int j = 0; j < n; ++j) for (int_t p = S.ptr[j]; p < S.ptr[j + 1]; ++p) {
        typename Wide<T>::W w = widen<T>(S.val[p]); R a = Tr<T>::is_complex ? (R)((R)std::fabs((double)std::real(w)) + (R)std::fabs((double)std::imag(w))) : (R)std::fabs((double)std::real(w));
        if (a != 0 && std::isfinite((double)a)) { col[j].push_back({(int)S.idx[p], std::log((long double)a)}); mags.push_back((long double)a); }
    }
    bool tie = false;
    std::sort(mags.begin(), mags.end()); for (size_t k = 1; k < mags.size(); ++k) if (mags[k] == mags[k - 1]) tie = true;
    for (int j = 0; j < n && !tie; ++j) for (int l = j + 1; l < n && !tie; ++l) {
        std::vector<long double> ratio;   // log a(i,j) - log a(i,l) over the rows both columns hold: two equal ratios = a 2x2 product tie
        for (auto &x : col[j]) for (auto &y : col[l]) if (x.first == y.first) ratio.push_back(x.second - y.second);
        std::sort(ratio.begin(), ratio.end()); for (size_t k = 1; k < ratio.size(); ++k) if (ratio[k] - ratio[k - 1] <= 1e-12L) tie = true;
    }
    if (!tie) return false;
    // (b) the direct call
    std::vector<int_t> ptr = S.ptr, idx = S.idx; std::vector<T> val = S.val;
    std::vector<int> perm(n + 1, -9); std::vector<R> u(n + 1, (R)0), v(n + 1, (R)0); int ret = -999;
    if (guarded([&] { ret = Tr<T>::ldperm(5, n, (int_t)idx.size(), ptr.data(), idx.data(), val.data(), perm.data(), u.data(), v.data()); }) != 0) { vf_purge(); return false; }
    if (ret != 0) return false;
    if (!is_perm(perm.data(), n)) return true;
    for (int i = 0; i < n; ++i) { bool stored = false; for (auto &x : col[perm[i]]) if (x.first == i) stored = true; if (!stored) return true; }
    return false;
}

// Known finding F-ILU (an incomplete factorization can leave a column without a pivot row: perm_r is returned with -1
// entries and L carries the row index -1).  Whatever ?gsisx does with such factors afterwards (pivot growth, condition
// estimate, solve) reads out of bounds, so the class cannot be recognised after the call; it is recognised before it:
// the same matrix and options are factored once with nrhs = 0 and without the optional estimates.  Call before bind();
// returns true when that factorization breaks down (the case then belongs to the known class and must be left alone).
template <class T> inline bool ilu_probe_breakdown(const Expert<T> &e)
{
    if (!e.ilu || e.so.Fact == FACTORED) return false;
    Expert<T> p; p.init(e.n, 0, e.n, e.n); p.ilu = true; p.S = e.S; p.B.assign(1, sentinel_value<T>());
    p.so = e.so; p.so.ConditionNumber = NO; p.so.PivotGrowth = NO; p.perm_c = e.perm_c; p.perm_r = e.perm_r; p.etree = e.etree;
    p.equed[0] = e.equed[0]; p.Rs = e.Rs; p.Cs = e.Cs;
    p.bind();
    if (p.call()) { vf_purge(); return false; }   // an abort is judged by the real call
    bool bad = p.info >= 0 && p.info <= e.n + 1 && !is_perm(p.perm_r.data(), e.n);
    p.teardown();
    return bad;
}

inline uint64_t dig_raw(uint64_t h, const void *p, size_t bytes) { return bytes ? fnv1a(p, bytes, h) : h; }
template <class T> inline uint64_t factor_digest_raw(const SuperMatrix *L, const SuperMatrix *U, const int *perm_r, const int *perm_c, int n)
{
    const SCformat *Ls = (const SCformat *)L->Store; const NCformat *Us = (const NCformat *)U->Store;
    uint64_t h = 1469598103934665603ULL;
    h = dig_raw(h, perm_r, sizeof(int) * (size_t)n); h = dig_raw(h, perm_c, sizeof(int) * (size_t)n);
    h = dig_raw(h, &Ls->nsuper, sizeof Ls->nsuper); h = dig_raw(h, &Ls->nnz, sizeof Ls->nnz); h = dig_raw(h, &Us->nnz, sizeof Us->nnz);
    if (Ls->nsuper < 0 || Ls->nsuper >= n) return h;
    h = dig_raw(h, Ls->sup_to_col, sizeof(int) * (size_t)(Ls->nsuper + 2)); h = dig_raw(h, Ls->col_to_sup, sizeof(int) * (size_t)n);
    h = dig_raw(h, Ls->rowind_colptr, sizeof(int_t) * (size_t)(n + 1)); h = dig_raw(h, Ls->nzval_colptr, sizeof(int_t) * (size_t)(n + 1)); h = dig_raw(h, Us->colptr, sizeof(int_t) * (size_t)(n + 1));
    if (Ls->rowind_colptr[n] >= 0 && Ls->nzval_colptr[n] >= 0 && Us->colptr[n] >= 0) {
        h = dig_raw(h, Ls->rowind, sizeof(int_t) * (size_t)Ls->rowind_colptr[n]); h = dig_raw(h, Ls->nzval, sizeof(T) * (size_t)Ls->nzval_colptr[n]);
        h = dig_raw(h, Us->rowind, sizeof(int_t) * (size_t)Us->colptr[n]); h = dig_raw(h, Us->nzval, sizeof(T) * (size_t)Us->colptr[n]);
    }
    return h;
}

// The factored (possibly equilibrated) matrix AA~ = diag(R) AA diag(C) restricted by equed, from the caller's
// returned storage (AA = A for NC, A^T for NR).
template <class T> inline Dense<typename Wide<T>::W> factored_matrix(const Expert<T> &e)
{
    Dense<typename Wide<T>::W> D = dense_of(e.S);
    return e.S.byrow ? transpose(D) : D;
}

}  // namespace vf
