// C10 - column orderings are permutations; elimination tree exact and postordered.
#include "drive.hpp"
#include <set>

namespace vf {

// Reference column elimination tree of an m x n pattern (columns in the given order): the elimination tree of
// the symbolic Cholesky factor of B = A^T A, by definition (dense boolean elimination).  Roots get parent n.
static std::vector<int> ref_coletree(const std::vector<std::vector<int>> &cols, int m)
{
    int n = (int)cols.size();
    std::vector<std::vector<char>> Lb(n, std::vector<char>(n, 0));
    std::vector<std::vector<int>> rowcols(m);
    for (int j = 0; j < n; ++j) for (int r : cols[j]) rowcols[r].push_back(j);
    for (int r = 0; r < m; ++r) for (int a : rowcols[r]) for (int b : rowcols[r]) if (a > b) Lb[a][b] = 1;   // lower part of A^T A
    std::vector<int> parent(n, n);
    for (int k = 0; k < n; ++k) {
        int p = -1;
        for (int i = k + 1; i < n; ++i) if (Lb[i][k]) { p = i; break; }
        if (p < 0) continue;
        parent[k] = p;
        for (int i = p + 1; i < n; ++i) if (Lb[i][k]) Lb[i][p] = 1;   // fill: struct(L(:,k)) \ {p} is contained in struct(L(:,p))
    }
    return parent;
}

static void run_d(Choice &c, Ctx &cx)
{
    typedef double T;
    int n = gen_size(c, cx.tier);
    static const unsigned wm[] = {8, 2, 2, 1, 1, 1, 1};
    int extra = (int)c.weighted(wm);
    bool wide = false;
    int m = n + extra;
    if (extra && c.chance(64) && n > extra) { m = n - extra; wide = true; }   // fewer rows than columns is a legal pattern too
    std::string family;
    std::vector<std::vector<int>> pat;
    if (m >= n) pat = gen_pattern(c, m, n, PAT_ANY, family);
    else {
        // wide: generate the transposed shape and flip it
        auto pt = gen_pattern(c, n, m, PAT_ANY, family);
        pat.assign(n, {});
        for (int j = 0; j < m; ++j) for (int i : pt[j]) pat[i].push_back(j);
        family += "(wide)";
    }
    // Orderings treat "dense" rows and the columns they leave empty separately (COLAMD: a row with more than
    // max(16, 10*sqrt(ncol)) entries, which needs ncol > 100): a family of larger patterns with one or two full rows, a sparse
    // band, some columns whose only entries lie in the full rows and some empty columns.
    if (c.chance(14)) {
        n = m = 101 + (int)c.below(60); wide = false; family = "dense-rows(n>100)";
        pat.assign(n, {});
        int d1 = (int)c.below((unsigned)n), d2 = c.chance(128) ? (int)c.below((unsigned)n) : -1;
        for (int j = 0; j < n; ++j) {
            unsigned kind = c.below(8);   // 0: only the dense rows, 1: empty column, otherwise band entries as well
            std::set<int> rows;
            if (kind != 1) { rows.insert(d1); if (d2 >= 0) rows.insert(d2); }
            if (kind >= 2) { rows.insert(j); if (c.chance(128)) rows.insert((j + 1) % n); if (c.chance(64)) rows.insert((int)c.below((unsigned)n)); }
            pat[j].assign(rows.begin(), rows.end());
        }
    }
    bool square = (m == n);
    colperm_t cp = gen_colperm(c, square);
    bool symmetric = square && c.chance(96);
    std::vector<int> pc_in;
    if (cp == MY_PERMC) pc_in = gen_perm(c, n);
    GMat G = gen_values(c, m, n, pat, false, false, family);
    Comp<T> S = to_comp<T>(G, false, c.chance(128) ? &c : nullptr);
    cx.hash = fnv1a(c.d, c.consumed(), 0xC10ULL);
    if (cx.dump) { cx.d(fmt("get_perm_c + sp_preorder m=%d n=%d ColPerm=%s SymmetricMode=%d", m, n, colperm_name(cp), (int)symmetric)); if (cp == MY_PERMC) cx.d("perm_c_in=" + vec_str(pc_in)); cx.d(gmat_str(G, false)); }
    cx.label(std::string("colperm=") + colperm_name(cp)); cx.label("family=" + G.family);
    cx.label(symmetric ? "SymmetricMode=YES" : "SymmetricMode=NO"); cx.label(m == n ? "square" : (m > n ? "tall" : "wide"));

    vf_case_begin(cx.fill(0xA5));
    std::vector<int_t> idx0 = S.idx, ptr0 = S.ptr; std::vector<T> val0 = S.val;
    MatView<T> A; A.create(S);
    superlu_options_t so; set_default_options(&so); so.ColPerm = cp; so.SymmetricMode = symmetric ? YES : NO; so.Fact = DOFACT;
    std::vector<int> perm_c(n, -1), perm_c2(n, -1), etree(n + 1, -7);
    SuperMatrix AC; bool have_ac = false;
    if (cp != MY_PERMC) {
        VF_GUARDED(cx, "get_perm_c", [&] { get_perm_c((int)cp, &A.A, perm_c.data()); });
        VF_REQUIRE(cx, is_perm(perm_c.data(), n), "perm_c", "get_perm_c(%s) did not return a bijection: %s", colperm_name(cp), vec_str(perm_c).c_str());
        // metamorphic: the ordering depends on the pattern only
        std::vector<T> other(S.val.size()); for (size_t k = 0; k < other.size(); ++k) other[k] = (T)(1000.0 + 3.0 * (double)k);
        std::vector<T> keep = S.val; S.val = other;
        ((NCformat *)A.A.Store)->nzval = S.val.data();
        VF_GUARDED(cx, "get_perm_c(2)", [&] { get_perm_c((int)cp, &A.A, perm_c2.data()); });
        S.val = keep; ((NCformat *)A.A.Store)->nzval = S.val.data();
        VF_REQUIRE(cx, perm_c == perm_c2, "pattern-only", "get_perm_c(%s) changed when only the values changed: %s vs %s", colperm_name(cp), vec_str(perm_c).c_str(), vec_str(perm_c2).c_str());
    } else perm_c = pc_in;
    std::vector<int> pc_before = perm_c;
    VF_GUARDED(cx, "sp_preorder", [&] { sp_preorder(&so, &A.A, perm_c.data(), etree.data(), &AC); have_ac = true; });
    auto cleanup = [&] { if (have_ac) Destroy_CompCol_Permuted(&AC); A.destroy(); };
    bool ok = true;
    do {
        if (!is_perm(perm_c.data(), n)) { cx.fail("perm_c", fmt("perm_c after sp_preorder is not a bijection: %s", vec_str(perm_c).c_str())); ok = false; break; }
        if (etree[n] != -7) { cx.fail("etree-overrun", "sp_preorder wrote etree[n]"); ok = false; break; }
        if (!bytes_equal(S.idx, idx0) || !bytes_equal(S.ptr, ptr0) || !bytes_equal(S.val, val0)) { cx.fail("input-modified", "A's arrays were modified"); ok = false; break; }
        // permuted-column view lists exactly A's columns
        NCPformat *ac = (NCPformat *)AC.Store;
        if (AC.Stype != SLU_NCP || AC.nrow != m || AC.ncol != n || ac->rowind != S.idx.data() || ac->nzval != (void *)S.val.data() || ac->nnz != S.nnz()) { cx.fail("ac-view", "permuted view has wrong tags, dimensions or does not alias A's arrays"); ok = false; break; }
        for (int i = 0; i < n && ok; ++i) if (ac->colbeg[perm_c[i]] != S.ptr[i] || ac->colend[perm_c[i]] != S.ptr[i + 1]) { cx.fail("ac-view", fmt("column %d of A (position %d) is listed as [%lld,%lld), expected [%lld,%lld)", i, perm_c[i], (long long)ac->colbeg[perm_c[i]], (long long)ac->colend[perm_c[i]], (long long)S.ptr[i], (long long)S.ptr[i + 1])); ok = false; }
        if (!ok) break;
        // reference etree of A*Pc_out
        std::vector<std::vector<int>> pcols(n);
        for (int j = 0; j < n; ++j) pcols[perm_c[j]] = pat[j];
        std::vector<int> ref = ref_coletree(pcols, m);
        for (int j = 0; j < n && ok; ++j) {
            if (etree[j] != ref[j]) { cx.fail("etree", fmt("etree[%d]=%d but the column elimination tree of A*Pc has parent %d (etree=%s ref=%s perm_c=%s)", j, etree[j], ref[j], vec_str(std::vector<int>(etree.begin(), etree.begin() + n)).c_str(), vec_str(ref).c_str(), vec_str(perm_c).c_str())); ok = false; }
            else if (!(etree[j] > j && etree[j] <= n)) { cx.fail("etree-order", fmt("etree[%d]=%d is not greater than its child", j, etree[j])); ok = false; }
        }
        if (!ok) break;
        if (!symmetric) {
            // postorder: every subtree occupies consecutive indices ending at its root
            std::vector<int> size(n, 1), first(n);
            for (int j = 0; j < n; ++j) first[j] = j;
            for (int j = 0; j < n; ++j) if (etree[j] < n) { size[etree[j]] += size[j]; first[etree[j]] = std::min(first[etree[j]], first[j]); }
            for (int j = 0; j < n && ok; ++j) if (first[j] != j - size[j] + 1) { cx.fail("postorder", fmt("subtree of node %d has %d nodes but starts at %d: not consecutive (etree=%s)", j, size[j], first[j], vec_str(std::vector<int>(etree.begin(), etree.begin() + n)).c_str())); ok = false; }
            if (!ok) break;
            // caller's / method's ordering respected up to a postorder of its own elimination tree
            std::vector<int> ipb(n); for (int j = 0; j < n; ++j) ipb[pc_before[j]] = j;
            std::vector<int> post(n); for (int k = 0; k < n; ++k) post[k] = perm_c[ipb[k]];
            std::vector<std::vector<int>> bcols(n); for (int j = 0; j < n; ++j) bcols[pc_before[j]] = pat[j];
            std::vector<int> tin = ref_coletree(bcols, m);
            for (int k = 0; k < n && ok; ++k) { int want = tin[k] < n ? post[tin[k]] : n; if (etree[post[k]] != want) { cx.fail("postorder-of-input", fmt("perm_c changed by %s which is not a relabelling of the elimination tree of A*Pc_in (node %d)", vec_str(post).c_str(), k)); ok = false; } }
        } else {
            if (perm_c != pc_before) { cx.fail("symmetric-mode-perm", "SymmetricMode=YES must not postorder, but perm_c was changed by sp_preorder"); ok = false; }
        }
    } while (0);
    // The factor routine takes etree and perm_c as inputs: they must still describe the permuted matrix afterwards (the
    // expert drivers hand the same etree back to the caller, who passes it in again with Fact = SamePattern...).
    if (ok && m >= n && c.chance(128) && !(cx.is_known("F-SS") && maybe_exactly_singular(G))) {
        std::vector<int> et0 = etree, pc0 = perm_c, perm_r(m, -1);
        SuperMatrix L, U; std::memset(&L, 0, sizeof L); std::memset(&U, 0, sizeof U);
        SuperLUStat_t stat; StatInit(&stat); GlobalLU_t Glu; std::memset(&Glu, 0, sizeof Glu); int_t info = -999;
        bool ab = guarded([&] { Tr<T>::gstrf(&so, &AC, sp_ienv(2), sp_ienv(1), etree.data(), nullptr, 0, perm_c.data(), perm_r.data(), &L, &U, &Glu, &stat, &info); }) != 0;
        if (ab) { cx.fail("abort", fmt("gstrf: library called ABORT: %s", vf_abort_msg())); ok = false; }
        else {
            if (info >= 0 && info <= n) { Destroy_SuperNode_Matrix(&L); Destroy_CompCol_Matrix(&U); }
            if (etree != et0) { cx.fail("etree-after-factorization", fmt("?gstrf changed the elimination tree it was given: %s became %s (SymmetricMode=%d)", vec_str(std::vector<int>(et0.begin(), et0.begin() + n)).c_str(), vec_str(std::vector<int>(etree.begin(), etree.begin() + n)).c_str(), (int)symmetric)); ok = false; }
            else if (perm_c != pc0) { cx.fail("perm_c-after-factorization", "?gstrf changed the column permutation it was given"); ok = false; }
            else cx.label("etree-unchanged-by-gstrf");
        }
        StatFree(&stat);
    }
    cleanup();
    if (!ok) { vf_purge(); return; }
    if (!ledger_clean(cx, "after Destroy_CompCol_Permuted")) return;
    int nroots = 0, maxkids = 0; std::vector<int> kids(n + 1, 0);
    for (int j = 0; j < n; ++j) { kids[etree[j]]++; if (etree[j] == n) nroots++; }
    for (int j = 0; j < n; ++j) maxkids = std::max(maxkids, kids[j]);
    bool path = (nroots == 1 && maxkids <= 1), singletons = (nroots == n);
    cx.label(path ? "etree=path" : (singletons ? "etree=singletons" : (maxkids >= 2 ? "etree=branching" : "etree=forest-of-paths")));
    cx.nontrivial = n >= 3 && !path && !singletons;
}

static void run(char, Choice &c, Ctx &cx) { run_d(c, cx); }

const PropInfo vf_prop = {
    "C10",
    "m x n patterns (tall, square, wide; 15 families incl. empty rows/columns, dense rows, arrow, block, grid, chains; sorted or shuffled row indices), ColPerm in {NATURAL, MMD_ATA, MMD_AT_PLUS_A, COLAMD, MY_PERMC}, "
    "SymmetricMode on/off; oracle: get_perm_c returns a bijection that is unchanged when all values are replaced; after sp_preorder the returned etree equals the column elimination tree of A*Pc computed by definition "
    "(symbolic Cholesky of A^T A, dense boolean), parent > child, subtrees consecutive unless SymmetricMode, colbeg/colend list exactly A's columns, perm_c_out = post o perm_c_in with post a relabelling of the input tree, "
    "perm_c untouched in SymmetricMode, A untouched; non-trivial = n>=3 and etree neither a path nor all singletons; distinct = hash of consumed stream prefix",
    run, "d"};

}  // namespace vf
