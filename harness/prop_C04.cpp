// C04 - exact singularity is reported, never silently solved.
#include "expert.hpp"
#include "isolate.hpp"

namespace vf {

// exact rank of an integer matrix (cols[j][i]) by Bareiss fraction-free elimination in __int128
static int exact_rank(const std::vector<std::vector<long long>> &cols, int m)
{
    int n = (int)cols.size(), rank = 0;
    std::vector<std::vector<__int128>> M(m, std::vector<__int128>(n));
    for (int j = 0; j < n; ++j) for (int i = 0; i < m; ++i) M[i][j] = cols[j][i];
    std::vector<char> rowused(m, 0);
    __int128 prev = 1;
    for (int pc = 0; pc < n; ++pc) {
        int pr = -1; for (int i = 0; i < m; ++i) if (!rowused[i] && M[i][pc] != 0) { pr = i; break; }
        if (pr < 0) continue;
        rowused[pr] = 1; ++rank;
        __int128 piv = M[pr][pc];
        for (int i = 0; i < m; ++i) if (!rowused[i]) {
            __int128 f = M[i][pc];
            for (int j = pc + 1; j < n; ++j) M[i][j] = (M[i][j] * piv - f * M[pr][j]) / prev;
            M[i][pc] = 0;
        }
        prev = piv;
    }
    return rank;
}

template <class T> struct SingCase {
    typedef typename Wide<T>::W W; typedef typename Tr<T>::R R;
    int n, nrhs; bool expert; Opts o; GMat G; bool plain_ints; int srank; int numeric_kind;
    Comp<T> S; std::vector<T> B;
};

// bounds-checked access helpers for the factor arrays on a singular return
static bool have(const void *p, size_t bytes) { return region_ok(p, bytes); }

template <class T>
static void judge(Ctx &cx, SingCase<T> &sc, const Dense<typename Wide<T>::W> &AAf /* matrix as factored */, long long info,
                  const int *perm_r, const int *perm_c, const SuperMatrix *L, const SuperMatrix *U, double u)
{
    typedef typename Wide<T>::W W;
    int n = sc.n;
    VF_REQUIRE(cx, is_perm(perm_c, n), "perm_c", "perm_c is not a bijection");
    std::vector<int> ipc(n); for (int j = 0; j < n; ++j) ipc[perm_c[j]] = j;
    // structural clause: first column of AA*Pc at which the leading columns lose structural full rank
    int i_struct = n + 1;
    {
        std::vector<std::vector<int>> cols(n);
        // structural pattern = the stored pattern (explicit zeros count as structural nonzeros, as in the library)
        for (int jj = 0; jj < n; ++jj) { int j = ipc[jj]; if (!sc.o.nr) { for (auto &e : sc.G.col[j]) cols[jj].push_back(e.first); } else { for (int c2 = 0; c2 < n; ++c2) for (auto &e : sc.G.col[c2]) if (e.first == j) cols[jj].push_back(c2); } }
        std::vector<int> mr(n, -1), seen(n, -1);
        struct Rec { static bool aug(int j, int stamp, const std::vector<std::vector<int>> &cols, std::vector<int> &mr, std::vector<int> &seen) {
            for (int i : cols[j]) { if (seen[i] == stamp) continue; seen[i] = stamp; if (mr[i] < 0 || aug(mr[i], stamp, cols, mr, seen)) { mr[i] = j; return true; } } return false; } };
        for (int jj = 0; jj < n; ++jj) if (!Rec::aug(jj, jj, cols, mr, seen)) { i_struct = jj + 1; break; }
    }
    if (i_struct <= n) {
        if (!(info >= 1 && info <= n) && cx.is_known("F-SR")) { cx.exclude("F-SR"); cx.label("F-SR:struct-singular-reported-as-success"); return; }
        VF_REQUIRE(cx, info >= 1 && info <= n, "struct-singular-not-reported", "matrix is structurally singular (leading %d permuted columns have structural rank < %d) but info=%lld", i_struct, i_struct, info);
        // (No upper bound on info is asserted: fill-in gives a structurally deficient column candidates whose exact
        //  value is zero by forced cancellation but whose computed value is a rounding residue, so the library may
        //  legitimately stop later than the first structurally deficient column.)
    }
    if (info == 0 || info == n + 1) return;   // success: judged by the caller through check_lu
    // ---- 1 <= info <= n : inspect the returned factors defensively -------------------------
    int upto = (int)info - 1;
    VF_REQUIRE(cx, L->Store && U->Store && L->Stype == SLU_SC && U->Stype == SLU_NC, "singular-factors", "info=%lld but L/U objects are not formed", info);
    const SCformat *Ls = (const SCformat *)L->Store; const NCformat *Us = (const NCformat *)U->Store;
    VF_REQUIRE(cx, have(Ls->col_to_sup, sizeof(int) * (size_t)n) && have(Ls->rowind_colptr, sizeof(int_t) * (size_t)(n + 1)) && have(Ls->nzval_colptr, sizeof(int_t) * (size_t)(n + 1)) && have(Us->colptr, sizeof(int_t) * (size_t)(n + 1)),
               "singular-factors", "pointer arrays of L/U not addressable");
    // leading pivots: rows with perm_r < upto are the pivots of columns 0..upto-1
    std::vector<int> ipr(upto, -1);
    for (int i = 0; i < n; ++i) { int p = perm_r[i]; if (p >= 0 && p < upto) { VF_REQUIRE(cx, ipr[p] < 0, "leading-pivots", "two rows (%d and %d) map to pivot position %d < info-1", ipr[p], i, p); ipr[p] = i; } }
    for (int p = 0; p < upto; ++p) VF_REQUIRE(cx, ipr[p] >= 0, "leading-pivots", "no row maps to pivot position %d although info=%lld says columns 0..%d were eliminated", p, info, upto - 1);
    Dense<W> Ld(upto, upto), Ud(upto, upto);
    const T *lval = (const T *)Ls->nzval; const T *uval = (const T *)Us->nzval;
    bool cand_zero = true; int ncand = 0; std::string cand_msg;
    for (int j = 0; j <= upto && j < n; ++j) {
        int s = Ls->col_to_sup[j];
        VF_REQUIRE(cx, s >= 0 && s < n && have(Ls->sup_to_col, sizeof(int) * (size_t)(s + 2)), "singular-factors", "col_to_sup[%d]=%d", j, s);
        int f = Ls->sup_to_col[s];
        VF_REQUIRE(cx, f >= 0 && f <= j, "singular-factors", "supernode %d of column %d starts at %d", s, j, f);
        int_t lb = Ls->rowind_colptr[f], nsupr = Ls->rowind_colptr[f + 1] - lb, vb = Ls->nzval_colptr[j];
        VF_REQUIRE(cx, lb >= 0 && nsupr >= 0 && vb >= 0 && have(Ls->rowind, sizeof(int_t) * (size_t)(lb + nsupr)) && have(Ls->nzval, sizeof(T) * (size_t)(vb + nsupr)), "singular-factors", "column %d: row list / values not addressable (start %lld len %lld)", j, (long long)lb, (long long)nsupr);
        const int_t *rl = Ls->rowind + lb; const T *v = lval + vb;
        if (j < upto) {
            VF_REQUIRE(cx, nsupr >= j - f + 1, "singular-factors", "column %d < info-1 has %lld rows in its supernode, fewer than its position %d", j, (long long)nsupr, j - f + 1);
            for (int_t t = 0; t < nsupr; ++t) {
                int_t r = rl[t];
                if (t <= j - f) { VF_REQUIRE(cx, r == f + t, "singular-factors", "column %d: row list entry %lld is %lld, expected %lld", j, (long long)t, (long long)r, (long long)(f + t)); Ud((int)r, j) += widen<T>(v[t]); }
                else if (r >= 0 && r < upto) Ld((int)r, j) += widen<T>(v[t]);
            }
            Ld(j, j) = W(1);
            int_t ub = Us->colptr[j], ue = Us->colptr[j + 1];
            VF_REQUIRE(cx, ub >= 0 && ue >= ub && have(Us->rowind, sizeof(int_t) * (size_t)ue) && have(Us->nzval, sizeof(T) * (size_t)ue), "singular-factors", "U column %d not addressable", j);
            for (int_t p = ub; p < ue; ++p) { int_t r = Us->rowind[p]; VF_REQUIRE(cx, r >= 0 && r < f, "singular-factors", "U column %d holds row %lld", j, (long long)r); Ud((int)r, j) += widen<T>(uval[p]); }
        } else {
            // the column that was reported: every candidate (from its diagonal position down) must be exactly zero
            for (int_t t = j - f; t < nsupr; ++t) { ++ncand; if (!is_zero(v[t])) { cand_zero = false; cand_msg = fmt("candidate row %lld of column %d holds %s", (long long)rl[t], j, w_str(widen<T>(v[t])).c_str()); } }
        }
    }
    VF_REQUIRE(cx, cand_zero, "nonzero-candidate", "info=%lld but %s: elimination was stopped although a nonzero pivot candidate existed", info, cand_msg.c_str());
    for (int j = 0; j < upto; ++j) VF_REQUIRE(cx, Ud(j, j) != W(0) && finite_w(Ud(j, j)), "leading-u-diagonal", "info=%lld but U(%d,%d)=%s among the leading columns", info, j, j, w_str(Ud(j, j)).c_str());
    if (upto > 0 && all_finite(Ld) && all_finite(Ud)) {
        Dense<LD> E = abs_product(Ld, Ud); Dense<W> P = product(Ld, Ud);
        LD tol = Consts<T>::c() * n * Consts<T>::u();
        for (int jj = 0; jj < upto; ++jj) for (int ii = 0; ii < upto; ++ii) {
            W a = AAf(ipr[ii], ipc[jj]);
            LD d = absm(a - P(ii, jj)), b = tol * E(ii, jj) + n * Consts<T>::safmin();
            if (std::isfinite((double)b) && !(d <= b)) VF_FAIL(cx, "leading-block", "info=%lld: leading block entry (%d,%d): Pr*A*Pc=%s but L*U=%s (diff %.3Lg > %.3Lg)", info, ii, jj, w_str(a).c_str(), w_str(P(ii, jj)).c_str(), d, b);
        }
    }
    cx.label(ncand ? "reported-column-has-candidates" : "reported-column-no-candidates");
    // exact clause: with small integers in double precision a candidate cannot round to exactly zero unless it is zero
    // (n <= 6 and u >= 0.5 keep every minor below 1e8 and the growth below 32, so a nonzero candidate is >= 1e-8
    //  in magnitude while the accumulated rounding error stays below 1e-12)
    if (sc.plain_ints && Tr<T>::letter == 'd' && n <= 6 && u >= 0.5) {
        std::vector<std::vector<long long>> cols;
        for (int jj = 0; jj <= upto; ++jj) { int j = ipc[jj]; std::vector<long long> cv(n); for (int i = 0; i < n; ++i) cv[i] = (long long)std::llround((double)std::real(AAf(i, j))); cols.push_back(cv); }
        int rk = exact_rank(cols, n);
        VF_REQUIRE(cx, rk < (int)info, "false-singularity", "info=%lld but the leading %lld permuted columns have exact rank %d (integer matrix, no cancellation can produce an exactly zero pivot column)", info, info, rk);
        cx.label("exact-rank-checked");
    }
}

template <class T> static void body(Ctx &cx, SingCase<T> &sc, unsigned char fill)
{
    typedef typename Wide<T>::W W;
    int n = sc.n, nrhs = sc.nrhs; Opts &o = sc.o;
    vf_case_begin(fill);
    apply_tuning(o.tune);
    if (!sc.expert) {
        Comp<T> &S = sc.S; std::vector<T> B = sc.B, B0 = sc.B;
        Dense<W> A0 = dense_of(S), AA = o.nr ? transpose(A0) : A0;
        superlu_options_t so; set_default_options(&so); apply_opts(o, so);
        std::vector<int> perm_r(n, -1), perm_c(n, -1);
        if (o.colperm == MY_PERMC) perm_c = o.my_perm_c;
        MatView<T> A; A.create(S); DenseView<T> Bv; Bv.create(n, nrhs, B.data(), n);
        SuperMatrix L, U; std::memset(&L, 0, sizeof L); std::memset(&U, 0, sizeof U);
        SuperLUStat_t stat; StatInit(&stat); int_t inf = -999;
        VF_GUARDED(cx, "gssv", [&] { Tr<T>::gssv(&so, &A.A, perm_c.data(), perm_r.data(), &L, &U, &Bv.X, &stat, &inf); });
        long long info = inf;
        bool exist = info >= 0 && info <= n;
        if (info < 0 || info > n) { vf_purge(); VF_FAIL(cx, "info", "valid call returned info=%lld (n=%d)", info, n); }
        judge<T>(cx, sc, AA, info, perm_r.data(), perm_c.data(), &L, &U, o.u);
        if (!cx.failed && info > 0 && !bytes_equal(B, B0)) cx.fail("rhs-touched", fmt("info=%lld but the right-hand side was modified (a solve was attempted)", info));
        if (!cx.failed && info == 0) { LUDecoded<T> dec; check_lu<T>(cx, AA, perm_r.data(), perm_c.data(), &L, &U, o.u, true, false, dec); }
        if (exist) { Destroy_SuperNode_Matrix(&L); Destroy_CompCol_Matrix(&U); }
        A.destroy(); Bv.destroy(); StatFree(&stat);
        if (cx.failed) { vf_purge(); return; }
        ledger_clean(cx, "after the simple driver");
        cx.label(info > 0 ? "singular-return" : "info=0");
        cx.nontrivial = info > 0 && (info > 1 || sc.srank == n) ;
    } else {
        Expert<T> e; e.init(n, nrhs, n, n);
        e.S = sc.S; e.B = sc.B;
        apply_opts(o, e.so);
        if (o.colperm == MY_PERMC) e.perm_c = o.my_perm_c;
        std::vector<T> B0 = e.B, X0 = e.X;
        e.bind();
        if (e.call()) { cx.fail("abort", fmt("gssvx: library called ABORT: %s", vf_abort_msg())); vf_purge(); return; }
        long long info = e.info;
        if (info < 0 || info > n + 1) { e.lu_live = false; e.teardown(); vf_purge(); VF_FAIL(cx, "info", "valid call returned info=%lld (n=%d)", info, n); }
        Dense<W> AAeq = factored_matrix(e);   // as factored (equilibrated in place when equed != N)
        judge<T>(cx, sc, AAeq, info, e.perm_r.data(), e.perm_c.data(), &e.L, &e.U, o.u);
        if (!cx.failed && info >= 1 && info <= n) {
            if (!bytes_equal(e.B, B0)) cx.fail("rhs-touched", fmt("info=%lld but B was modified", info));
            else if (!bytes_equal(e.X, X0)) cx.fail("x-touched", fmt("info=%lld but X was written (a solve was attempted)", info));
        }
        if (!cx.failed && (info == 0 || info == n + 1)) { LUDecoded<T> dec; check_lu<T>(cx, AAeq, e.perm_r.data(), e.perm_c.data(), &e.L, &e.U, o.u, true, false, dec); }
        e.teardown();
        if (cx.failed) { vf_purge(); return; }
        ledger_clean(cx, "after the expert driver");
        cx.label(info >= 1 && info <= n ? "singular-return" : "info=0");
        cx.nontrivial = info >= 1 && info <= n && (info > 1 || sc.srank == n);
    }
}

template <class T> static void run_T(Choice &c, Ctx &cx)
{
    typedef typename Tr<T>::R R;
    const bool cplx = Tr<T>::is_complex, single = sizeof(R) == 4;
    SingCase<T> sc;
    int n = sc.n = gen_size(c, cx.tier);
    unsigned kind = c.below(10);        // 0..3 structurally singular, 4..7 singular by exact cancellation, 8,9 controls
    sc.numeric_kind = kind;
    std::string family;
    PatMode pm = kind <= 3 ? PAT_SINGULAR : PAT_NONSING;
    auto pat = gen_pattern(c, n, n, pm, family);
    GMat G;
    sc.plain_ints = false;
    if (kind >= 4 && kind <= 7) {
        // small integers; then one column becomes an integer combination of two others (merged pattern): exactly singular
        Choice *cc = &c;
        G.m = G.n = n; G.col.resize(n); G.family = family + "+dependent-column"; G.vkind = cplx ? "ints(real part)" : "ints";
        ValGen g; g.kind = 0; g.cmode = 1; g.expK = 0; g.explicit_zero = false;
        for (int j = 0; j < n; ++j) for (int i : pat[j]) G.col[j].push_back({i, g.value(*cc, false)});
        if (n >= 2) {
            int t = (int)c.below((unsigned)n), a = (int)c.below((unsigned)n), b = (int)c.below((unsigned)n);
            if (a == t) a = (t + 1) % n;
            if (b == t) b = (t + 1) % n;
            static const int coef[] = {1, -1, 2, -2, 1, 3};
            int ca = coef[c.below(6)], cb = (a == b) ? 0 : coef[c.below(6)];
            std::vector<double> v(n, 0.0); std::vector<char> st(n, 0);
            for (auto &e : G.col[a]) { v[e.first] += ca * e.second.re; st[e.first] = 1; }
            for (auto &e : G.col[b]) { v[e.first] += cb * e.second.re; st[e.first] = 1; }
            G.col[t].clear();
            for (int i = 0; i < n; ++i) if (st[i] && v[i] != 0) G.col[t].push_back({i, Val{v[i], 0}});
        } else { G.col[0].clear(); }
        sc.plain_ints = true;
    } else {
        G = gen_values(c, n, n, pat, cplx, single, family);
        sc.plain_ints = (G.vkind == "ints" || G.vkind == "ints/real") ;
        if (sc.plain_ints) for (auto &col : G.col) for (auto &e : col) if (e.second.im != 0) sc.plain_ints = false;
    }
    sc.G = G;
    sc.expert = c.chance(100);
    sc.o = gen_opts(c, n, single, true, sc.expert);
    if (c.chance(24)) sc.o.u = 0.0;       // DiagPivotThresh is documented for [0,1]; with 0 the diagonal is taken whenever it is nonzero
    if (sc.expert && sc.o.equil) sc.plain_ints = false;
    sc.o.refine = NOREFINE;
    static const unsigned wn[] = {6, 2, 2}; sc.nrhs = (int)c.weighted(wn) == 1 ? 0 : (c.chance(128) ? 1 : 2);
    sc.S = to_comp<T>(G, sc.o.nr, sc.o.shuffle_rows ? &c : nullptr);
    sc.B = gen_rhs<T>(c, n, sc.nrhs, n, cplx);
    sc.srank = struct_rank(G);
    // Known finding F07 (complex, NR, CONJ): irrelevant to singular returns but keep clear of it
    if (cplx && sc.o.nr && sc.o.trans == CONJ && cx.is_known("F07")) sc.o.trans = TRANS;
    cx.hash = fnv1a(c.d, c.consumed(), 0xC04ULL ^ ((uint64_t)Tr<T>::letter << 32));
    if (cx.dump) { cx.d(fmt("%s n=%d nrhs=%d kind=%u structural rank=%d", sc.expert ? "gssvx" : "gssv", n, sc.nrhs, kind, sc.srank)); cx.d(opts_str(sc.o, sc.expert)); cx.d(gmat_str(G, cplx)); }
    cx.label(kind <= 3 ? "kind=structural" : (kind <= 7 ? "kind=cancellation" : "kind=control"));
    cx.label(sc.expert ? "driver=gssvx" : "driver=gssv");
    cx.label("family=" + G.family);
    cx.label(sc.srank < n ? fmt("deficiency=%d", std::min(n - sc.srank, 3)) : "struct-nonsingular");
    // Known finding F-SS: once a column has no nonzero candidate, ?gstrf carries on with an inconsistent supernode and
    // reads uninitialised factor storage.  Every case runs in a forked child; exactly singular inputs get zero-filled
    // fresh blocks (what a fresh heap usually looks like) so that every run that returns can still be judged.
    bool in_class = maybe_exactly_singular(G);
    bool open = cx.is_known("F-SS");
    unsigned char fill = cx.fill((open && in_class) ? 0x00 : 0xA5);
    Ctx probe = cx;
    IsoResult r = run_isolated(cx, [&](Ctx &ccx) { body<T>(ccx, sc, fill); }, 20);
    if (r.status == IsoResult::OK) { if (in_class) cx.label("singular-class:returned"); return; }
    if (open && in_class) { cx.exclude("F-SS"); cx.label(r.status == IsoResult::HANG ? "F-SS:hang" : "F-SS:crash"); return; }
    if (open && fill != 0x00) {
        // not predicted singular: does the same call return a singular result with benign memory contents?
        IsoResult r2 = run_isolated(probe, [&](Ctx &ccx) { body<T>(ccx, sc, 0x00); }, 20);
        bool singular = false; for (auto &l : probe.labels) if (l == "singular-return") singular = true;
        if (r2.status == IsoResult::OK && singular && !probe.failed) { cx.exclude("F-SS"); cx.label("F-SS:crash(floating-point singular)"); return; }
    }
    cx.fail(r.status == IsoResult::HANG ? "hang" : "crash", fmt("the driver %s on this input (child status %d)", r.status == IsoResult::HANG ? "did not return within 20 s" : "crashed", r.detail));
}

static void run(char type, Choice &c, Ctx &cx)
{
    switch (type) {
    case 's': run_T<float>(c, cx); break;
    case 'd': run_T<double>(c, cx); break;
    case 'c': run_T<cfloat>(c, cx); break;
    default: run_T<cdouble>(c, cx); break;
    }
}

const PropInfo vf_prop = {
    "C04",
    "square A that is structurally singular (empty rows/columns anywhere, Hall violations, few-rows patterns), singular by exact cancellation (small integers, one column an integer combination of two others) "
    "or a nonsingular control, through ?gssv and ?gssvx, all orderings/thresholds/tunings; oracle: structural rank by augmenting paths => info in [1, first structurally deficient permuted column]; "
    "for 1<=info<=n: leading (info-1)x(info-1) block of Pr*A*Pc equals L*U within c*n*eps*|L||U| with nonzero U diagonal (bounds-checked decoding), every stored candidate of column info is exactly 0.0, "
    "B and X bit-identical; info=0 => C02/C03 incl. nonzero U diagonal; double precision small integers n<=8: leading info columns have exact rank < info (128-bit fraction-free elimination); "
    "non-trivial = 1<=info<=n with info>1 or a structurally nonsingular matrix; distinct = hash of consumed stream prefix and type",
    run, "sdcz"};

}  // namespace vf
