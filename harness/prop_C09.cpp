// C09 - calls are reentrant, thread-safe and deterministic.
#include "expert.hpp"
#include "isolate.hpp"
#include <thread>
#include <atomic>
#include <chrono>
#include <unistd.h>
#include <sys/wait.h>
#include <signal.h>

namespace vf {

struct JobResult { uint64_t digest = 0; bool aborted = false; long long info = -999; long leaked = 0; double t0 = 0, t1 = 0; bool tiny = false; bool equil = false; };

static double now_s() { return std::chrono::duration<double>(std::chrono::steady_clock::now().time_since_epoch()).count(); }

template <class T> static JobResult run_job_T(unsigned kind, const uint8_t *d, size_t len, const std::set<std::string> &known)
{
    typedef typename Tr<T>::R R;
    const bool cplx = Tr<T>::is_complex, single = sizeof(R) == 4;
    JobResult jr; Choice c(d, len);
    int n = gen_size(c, 0, 10, 10);
    std::string family;
    auto pat = gen_pattern(c, n, n, PAT_NONSING, family);
    GMat G = gen_values(c, n, n, pat, cplx, single, family, false);
    if (maybe_exactly_singular(G)) {   // keep clear of singular factorizations (finding F-SS): make it column diagonally dominant
        for (int j = 0; j < n; ++j) { bool has = false; double s = 1; for (auto &e : G.col[j]) { if (e.first == j) has = true; else s += std::fabs(e.second.re) + std::fabs(e.second.im); } if (!has) { G.col[j].push_back({j, Val{0, 0}}); std::sort(G.col[j].begin(), G.col[j].end(), [](const std::pair<int, Val> &a, const std::pair<int, Val> &b) { return a.first < b.first; }); } for (auto &e : G.col[j]) if (e.first == j) { e.second.re = s; e.second.im = 0; } }
    }
    Opts o = gen_opts(c, n, single, true, true);
    if (cplx && o.nr && o.trans == CONJ && known.count("F07")) o.trans = TRANS;
    int nrhs = 1 + (int)c.below(2);
    // some problems live at the bottom of the exponent range (A and b scaled by the same power of two): thresholds of the
    // "safe minimum" kind come into play there, and they must not depend on what was solved before
    double tiny = 1; { unsigned us = c.u8(); if (us >= 176) tiny = std::ldexp(1.0, single ? -(100 + (int)(us % 20)) : -(940 + (int)(us % 64))); }
    if (tiny != 1) for (auto &col : G.col) for (auto &en : col) { en.second.re *= tiny; en.second.im *= tiny; }
    if (tiny != 1 && (n & 1)) o.equil = false;   // equilibration would lift the problem out of the range of interest
    jr.tiny = tiny != 1; jr.equil = o.equil;
    auto scale_rhs = [&](std::vector<T> &B) { if (tiny != 1) for (auto &v : B) v = v * (R)tiny; };
    uint64_t h = 1469598103934665603ULL;
    vf_case_begin(0xA5);
    apply_tuning(o.tune);
    jr.t0 = now_s();
    switch (kind % 6) {
    case 0: case 4: {   // simple driver / factor + solve
        Comp<T> S = to_comp<T>(G, kind % 6 == 0 ? o.nr : false, nullptr);
        std::vector<T> B = gen_rhs<T>(c, n, nrhs, n, cplx); scale_rhs(B);
        superlu_options_t so; set_default_options(&so); apply_opts(o, so); so.ColPerm = o.colperm == MY_PERMC ? COLAMD : o.colperm;
        std::vector<int> perm_r(n, -1), perm_c(n, -1), etree(n, -1);
        MatView<T> A; A.create(S); DenseView<T> Bv; Bv.create(n, nrhs, B.data(), n);
        SuperMatrix L, U, AC; SuperLUStat_t stat; StatInit(&stat); GlobalLU_t Glu; int_t info = -999; int sinfo = 0; bool have_ac = false;
        jr.aborted = guarded([&] {
            if (kind % 6 == 0) Tr<T>::gssv(&so, &A.A, perm_c.data(), perm_r.data(), &L, &U, &Bv.X, &stat, &info);
            else { get_perm_c((int)so.ColPerm, &A.A, perm_c.data()); sp_preorder(&so, &A.A, perm_c.data(), etree.data(), &AC); have_ac = true;
                   Tr<T>::gstrf(&so, &AC, sp_ienv(2), sp_ienv(1), etree.data(), nullptr, 0, perm_c.data(), perm_r.data(), &L, &U, &Glu, &stat, &info);
                   if (info == 0) Tr<T>::gstrs(o.trans, &L, &U, perm_c.data(), perm_r.data(), &Bv.X, &stat, &sinfo); }
        }) != 0;
        jr.info = info;
        if (!jr.aborted) {
            h = dig_raw(h, &info, sizeof info); h = dig_raw(h, perm_c.data(), sizeof(int) * (size_t)n);
            if (info == 0) { h = dig_raw(h, B.data(), sizeof(T) * B.size()); uint64_t fd = factor_digest_raw<T>(&L, &U, perm_r.data(), perm_c.data(), n); h = dig_raw(h, &fd, sizeof fd); h = dig_raw(h, stat.ops, sizeof(flops_t) * 3); }
            if (info >= 0 && info <= n) { Destroy_SuperNode_Matrix(&L); Destroy_CompCol_Matrix(&U); }
            if (have_ac) Destroy_CompCol_Permuted(&AC);
            A.destroy(); Bv.destroy(); StatFree(&stat);
        }
        break; }
    case 1: case 2: {   // expert driver with refinement and condition estimate / ILU driver
        Expert<T> e; e.init(n, nrhs, n, n); e.ilu = (kind % 6 == 2);
        e.S = to_comp<T>(G, o.nr, nullptr); e.B = gen_rhs<T>(c, n, nrhs, n, cplx); scale_rhs(e.B);
        if (e.ilu) { IluOpts io = gen_ilu_opts(c); if ((io.droprule & DROP_SECONDARY) && known.count("F-ILU-WORK2")) io.droprule |= DROP_INTERP; ilu_set_default_options(&e.so); apply_opts(o, e.so); apply_ilu(io, e.so); e.so.IterRefine = NOREFINE; }
        else { apply_opts(o, e.so); e.so.IterRefine = SLU_DOUBLE; }
        e.so.ConditionNumber = YES; e.so.PivotGrowth = YES; e.so.ColPerm = o.colperm == MY_PERMC ? MMD_ATA : o.colperm;
        // Half of these jobs factor inside a caller workspace that the calling thread keeps and re-uses for every later job, as a
        // program that owns one work[] does: what an earlier problem left in it must not influence the next result (the
        // concurrent run of the same job uses its own thread's workspace, with other leftovers or none).
        static thread_local std::vector<char> ws;
        if ((fnv1a(d, len, 99) >> 5) & 1) { if (ws.empty()) ws.assign((size_t)1 << 20, 0); e.work = ws.data(); e.lwork = (int_t)ws.size(); }
        e.bind();
        jr.aborted = e.call(); jr.info = e.info;
        if (!jr.aborted) {
            h = dig_raw(h, &e.info, sizeof e.info); h = dig_raw(h, e.equed, 1); h = dig_raw(h, e.perm_c.data(), sizeof(int) * (size_t)n); h = dig_raw(h, e.etree.data(), sizeof(int) * (size_t)n);
            bool okf = e.info == 0 || e.info == n + 1 || (e.ilu && e.info >= 0 && e.info <= n);
            if (okf && is_perm(e.perm_r.data(), n)) {
                h = dig_raw(h, e.X.data(), sizeof(T) * (size_t)n * nrhs); h = dig_raw(h, &e.rcond, sizeof(R)); h = dig_raw(h, &e.rpg, sizeof(R));
                if (!e.ilu) { h = dig_raw(h, e.ferr.data(), sizeof(R) * (size_t)nrhs); h = dig_raw(h, e.berr.data(), sizeof(R) * (size_t)nrhs); }
                if (e.rowequ()) h = dig_raw(h, e.Rs.data(), sizeof(R) * (size_t)n); if (e.colequ()) h = dig_raw(h, e.Cs.data(), sizeof(R) * (size_t)n);
                uint64_t fd = factor_digest_raw<T>(&e.L, &e.U, e.perm_r.data(), e.perm_c.data(), n); h = dig_raw(h, &fd, sizeof fd);
                h = dig_raw(h, &e.stat.RefineSteps, sizeof(int));
            }
            e.teardown();
        }
        break; }
    case 3: {   // ordering + elimination tree
        Comp<T> S = to_comp<T>(G, false, nullptr);
        superlu_options_t so; set_default_options(&so); so.ColPerm = o.colperm == MY_PERMC ? MMD_AT_PLUS_A : o.colperm; so.SymmetricMode = o.symmetric ? YES : NO;
        std::vector<int> perm_c(n, -1), etree(n, -1); MatView<T> A; A.create(S); SuperMatrix AC; bool have_ac = false;
        jr.aborted = guarded([&] { get_perm_c((int)so.ColPerm, &A.A, perm_c.data()); sp_preorder(&so, &A.A, perm_c.data(), etree.data(), &AC); have_ac = true; }) != 0;
        if (!jr.aborted) { h = dig_raw(h, perm_c.data(), sizeof(int) * (size_t)n); h = dig_raw(h, etree.data(), sizeof(int) * (size_t)n); if (have_ac) Destroy_CompCol_Permuted(&AC); A.destroy(); }
        jr.info = 0;
        break; }
    default: {   // large-diagonal permutation (MC64)
        for (auto &col : G.col) { std::vector<std::pair<int, Val>> keep; for (auto &e : col) if (e.second.re != 0 || e.second.im != 0) keep.push_back(e); col.swap(keep); }
        Comp<T> S = to_comp<T>(G, false, nullptr);
        std::vector<int> perm(n, -1); std::vector<R> u(n, 0), v(n, 0); int ret = -999;
        jr.aborted = guarded([&] { ret = Tr<T>::ldperm(5, n, S.nnz(), S.ptr.data(), S.idx.data(), S.val.data(), perm.data(), u.data(), v.data()); }) != 0;
        if (!jr.aborted) { h = dig_raw(h, &ret, sizeof ret); h = dig_raw(h, perm.data(), sizeof(int) * (size_t)n); if (ret == 0) { h = dig_raw(h, u.data(), sizeof(R) * (size_t)n); h = dig_raw(h, v.data(), sizeof(R) * (size_t)n); } }
        jr.info = ret;
        break; }
    }
    jr.t1 = now_s();
    if (jr.aborted) { h = dig_raw(h, "abort", 5); vf_purge(); }
    jr.leaked = vf_live_blocks(); if (jr.leaked) vf_purge();
    jr.digest = h;
    return jr;
}

static JobResult run_job(char type, unsigned kind, const uint8_t *d, size_t len, const std::set<std::string> &known)
{
    switch (type) {
    case 's': return run_job_T<float>(kind, d, len, known);
    case 'd': return run_job_T<double>(kind, d, len, known);
    case 'c': return run_job_T<cfloat>(kind, d, len, known);
    default: return run_job_T<cdouble>(kind, d, len, known);
    }
}

// ---- jobs of one case ------------------------------------------------------------------------------------------------
struct Job { char type; unsigned kind; std::vector<uint8_t> bytes; unsigned skew; };
static const char *kn[] = {"gssv", "gssvx+refine+cond", "gsisx", "get_perm_c+sp_preorder", "gstrf+gstrs", "ldperm"};
static std::vector<Job> decode_jobs(Choice &c)
{
    int njobs = 2 + (int)c.below(7);
    std::vector<Job> jobs(njobs);
    static const char tl[] = "dszc";
    for (auto &j : jobs) { j.type = tl[c.below(4)]; j.kind = c.below(6); size_t len = 24 + c.below(72); j.bytes.resize(len); for (auto &b : j.bytes) b = c.u8(); j.skew = c.u8(); }
    // "siblings": some later jobs call the same routine in the same arithmetic as job 0, on another problem - state that a
    // routine keeps from its first call shows up when the second call is for a different size or scale
    for (size_t k = 1; k < jobs.size(); ++k) if (jobs[k].skew & 1) { jobs[k].type = jobs[0].type; jobs[k].kind = jobs[0].kind; }
    return jobs;
}
enum { MAXJOBS = 8 };
struct CaseOut { int njobs; JobResult alone[MAXJOBS], conc[MAXJOBS], again[MAXJOBS]; };

// every job alone (in order: job i runs after jobs 0..i-1 of this case), all jobs concurrently, all jobs again in reverse order
static void run_case_local(const std::vector<Job> &jobs, const std::set<std::string> &known, CaseOut &o)
{
    int njobs = (int)jobs.size(); o.njobs = njobs;
    for (int i = 0; i < njobs; ++i) o.alone[i] = run_job(jobs[i].type, jobs[i].kind, jobs[i].bytes.data(), jobs[i].bytes.size(), known);
    std::atomic<int> ready(0); std::atomic<bool> go(false);
    std::vector<std::thread> th;
    for (int i = 0; i < njobs; ++i) th.emplace_back([&, i] {
        ready++; while (!go.load()) std::this_thread::yield();
        volatile unsigned spin = 0; for (unsigned k = 0; k < jobs[i].skew * 200u; ++k) spin += k;
        o.conc[i] = run_job(jobs[i].type, jobs[i].kind, jobs[i].bytes.data(), jobs[i].bytes.size(), known);
    });
    while (ready.load() < njobs) std::this_thread::yield();   // (busy spinning starved the other shards' threads on a loaded machine)
    go.store(true);
    for (auto &t : th) t.join();
    for (int i = njobs - 1; i >= 0; --i) o.again[i] = run_job(jobs[i].type, jobs[i].kind, jobs[i].bytes.data(), jobs[i].bytes.size(), known);
}

// ---- pristine processes ----------------------------------------------------------------------------------------------
// "Whatever other problems were solved before" includes "none": state that a routine caches on its first call (a static
// scratch value, a lazily computed constant) is frozen for the rest of a process, so comparing runs inside one long-lived
// process cannot see it - and what it does see depends on all the cases evaluated before, which no saved input reproduces.
// A helper process is therefore forked the first time a case is evaluated, before this process has called anything in the
// library; it never calls the library itself.  Every case is evaluated in a grandchild forked from that untouched state
// (so the history of a case is exactly its own jobs, and a replay sees the same), and single jobs are run in further
// grandchildren as "first library call of a fresh process" references.
struct Pristine {
    int to = -1, from = -1; pid_t pid = -1; bool dead = false;
    void start() {
        int a[2], b[2]; if (pipe(a) || pipe(b)) { dead = true; return; }
        pid = fork();
        if (pid < 0) { dead = true; return; }
        if (pid == 0) {
            in_child() = true; signal(SIGALRM, SIG_DFL); signal(SIGPIPE, SIG_DFL); alarm(0);
            close(a[1]); close(b[0]);
            serve(a[0], b[1]); _exit(0);
        }
        close(a[0]); close(b[1]); to = a[1]; from = b[0];
    }
    static bool rd(int fd, void *p, size_t n) { char *q = (char *)p; while (n) { ssize_t k = read(fd, q, n); if (k <= 0) { if (k < 0 && errno == EINTR) continue; return false; } q += k; n -= (size_t)k; } return true; }
    static bool wr(int fd, const void *p, size_t n) { const char *q = (const char *)p; while (n) { ssize_t k = write(fd, q, n); if (k <= 0) { if (k < 0 && errno == EINTR) continue; return false; } q += k; n -= (size_t)k; } return true; }
    struct Req { char mode; char type; unsigned kind; unsigned len; unsigned nknown; };   // mode 'J': one job, 'C': a whole case (bytes = the case's stream)
    struct Rep { int status; int sig; uint64_t digest; long long info; int aborted; };   // status 0 ok, 1 died, 2 no return within the limit
    static void serve(int in, int out) {
        for (;;) {
            Req q; if (!rd(in, &q, sizeof q)) return;
            std::vector<uint8_t> bytes(q.len); if (q.len && !rd(in, bytes.data(), q.len)) return;
            std::set<std::string> known; for (unsigned i = 0; i < q.nknown; ++i) { unsigned l; if (!rd(in, &l, sizeof l)) return; std::string s(l, ' '); if (l && !rd(in, &s[0], l)) return; known.insert(s); }
            int pp[2]; Rep r; r.status = 1; r.sig = 0; r.digest = 0; r.info = -999; r.aborted = 0; CaseOut co; std::memset((void *)&co, 0, sizeof co);
            if (pipe(pp) == 0) {
                pid_t g = fork();
                if (g == 0) {
                    close(pp[0]); alarm(q.mode == 'C' ? 100 : 30);
                    Rep rr; rr.status = 0; rr.sig = 0; rr.digest = 0; rr.info = 0; rr.aborted = 0;
                    if (q.mode == 'C') { Choice cc(bytes.data(), bytes.size()); std::vector<Job> jobs = decode_jobs(cc); CaseOut o; std::memset((void *)&o, 0, sizeof o); run_case_local(jobs, known, o); wr(pp[1], &rr, sizeof rr); wr(pp[1], &o, sizeof o); }
                    else { JobResult jr = run_job(q.type, q.kind, bytes.data(), bytes.size(), known); rr.digest = jr.digest; rr.info = jr.info; rr.aborted = jr.aborted; wr(pp[1], &rr, sizeof rr); }
                    _exit(0);
                }
                close(pp[1]);
                if (g > 0) {
                    Rep rr; bool got = rd(pp[0], &rr, sizeof rr); if (got && q.mode == 'C') got = rd(pp[0], &co, sizeof co);
                    int st = 0; while (waitpid(g, &st, 0) < 0 && errno == EINTR) {}
                    if (got && WIFEXITED(st) && WEXITSTATUS(st) == 0) r = rr;
                    else { r.status = (WIFSIGNALED(st) && WTERMSIG(st) == SIGALRM) ? 2 : 1; r.sig = WIFSIGNALED(st) ? WTERMSIG(st) : -WEXITSTATUS(st); }
                }
                close(pp[0]);
            }
            if (!wr(out, &r, sizeof r)) return;
            if (q.mode == 'C' && !wr(out, &co, sizeof co)) return;
        }
    }
    bool ask(char mode, char type, unsigned kind, const uint8_t *bytes, size_t len, const std::set<std::string> &known, Rep &r, CaseOut *co) {
        if (dead) return false;
        Req q; q.mode = mode; q.type = type; q.kind = kind; q.len = (unsigned)len; q.nknown = (unsigned)known.size();
        bool ok = wr(to, &q, sizeof q) && (len == 0 || wr(to, bytes, len));
        for (auto &k : known) { unsigned l = (unsigned)k.size(); ok = ok && wr(to, &l, sizeof l) && (l == 0 || wr(to, k.data(), l)); }
        ok = ok && rd(from, &r, sizeof r);
        if (ok && mode == 'C') ok = rd(from, co, sizeof *co);
        if (!ok) dead = true;
        return ok;
    }
};
static Pristine &pristine() { static Pristine p; static bool started = false; if (!started) { started = true; signal(SIGPIPE, SIG_IGN); p.start(); } return p; }

#if defined(__has_feature)
#if __has_feature(thread_sanitizer)
#define VF_TSAN_BUILD 1
#endif
#endif

static void run(char, Choice &c, Ctx &cx)
{
#ifdef VF_TSAN_BUILD
    // ThreadSanitizer stops tracking memory accesses in a forked child (observed: a seeded race on a static buffer goes
    // unreported there), so in this build every case runs in this process, as the race detector needs; the fresh-process
    // comparisons belong to the ASan build.
    const bool own_process = false;
#else
    const bool own_process = !in_child();
#endif
#ifdef VF_TSAN_BUILD
    Pristine pr_none; pr_none.dead = true; Pristine &pr = pr_none;   // no helper process in the race-detector build
#else
    Pristine &pr = pristine();   // forked before this process first enters the library
#endif
    std::vector<Job> jobs = decode_jobs(c);
    int njobs = (int)jobs.size();
    cx.hash = fnv1a(c.d, c.consumed(), 0xC09ULL);
    if (cx.dump) { cx.d(fmt("%d jobs", njobs)); for (int i = 0; i < njobs; ++i) cx.d(fmt("  job %d: type %c %s (%zu bytes, start skew %u)", i, jobs[i].type, kn[jobs[i].kind], jobs[i].bytes.size(), jobs[i].skew)); }
    CaseOut co; std::memset((void *)&co, 0, sizeof co);
    Pristine::Rep rep;
    // (1)-(3) the case itself, in a process whose only history is this case
    // the helper process decodes the bytes again without a tail: hand it the stream as it was read (tail bytes materialised)
    std::vector<uint8_t> mat(c.tail ? c.pos : std::min(c.n, c.consumed()));
    for (size_t i = 0; i < mat.size(); ++i) mat[i] = i < c.n ? c.d[i] : c.tail_byte(i);
    if (own_process && pr.ask('C', 0, 0, mat.data(), mat.size(), cx.known, rep, &co)) {
        if (rep.status != 0) VF_FAIL(cx, rep.status == 2 ? "hang" : "crash", "the case %s in its own process (%s %d); a sanitizer report, if any, is in the log", rep.status == 2 ? "did not finish within 100 s" : "died", rep.sig > 0 ? "signal" : "exit code", rep.sig > 0 ? rep.sig : -rep.sig);
        cx.label("case-in-own-process");
    } else { run_case_local(jobs, cx.known, co); cx.label("case-in-this-process"); }
    const JobResult *alone = co.alone, *conc = co.conc, *again = co.again;
    // (1b) one job of every case - and every refinement job near the underflow threshold - as the first library call of a fresh process
    int pj0 = (int)(fnv1a(c.d, c.consumed(), 77) % (uint64_t)njobs); bool fresh_compared = false;
    for (int pj = 0; pj < njobs && own_process; ++pj) {
        if (pj != pj0 && !(alone[pj].tiny && jobs[pj].kind == 1)) continue;
        if (pr.ask('J', jobs[pj].type, jobs[pj].kind, jobs[pj].bytes.data(), jobs[pj].bytes.size(), cx.known, rep, nullptr)) {
            if (rep.status != 0) VF_FAIL(cx, "fresh-process", "job %d (type %c, %s) %s when run as the first library call of a fresh process, but returned after %d other job(s)", pj, jobs[pj].type, kn[jobs[pj].kind], rep.status == 2 ? "did not return within 30 s" : "crashed", pj);
            if (rep.digest != alone[pj].digest) VF_FAIL(cx, "fresh-process-differs", "job %d (type %c, %s): output digest %016llx as the first library call of a fresh process but %016llx after the %d job(s) before it (info %lld vs %lld, aborted %d vs %d)", pj, jobs[pj].type, kn[jobs[pj].kind],
                                                        (unsigned long long)rep.digest, (unsigned long long)alone[pj].digest, pj, rep.info, alone[pj].info, rep.aborted, (int)alone[pj].aborted);
            fresh_compared = true;
            if (alone[pj].tiny && jobs[pj].kind == 1) cx.label(alone[pj].equil ? "fresh-reference:refinement-near-underflow(equilibrated)" : "fresh-reference:refinement-near-underflow");
        }
    }
    if (fresh_compared) cx.label("fresh-process-reference"); else cx.label("fresh-process-unavailable");
    int overlapping = 0; std::set<unsigned> kinds_overlapping;
    for (int i = 0; i < njobs; ++i) for (int j = 0; j < njobs; ++j) if (i != j && conc[i].t0 < conc[j].t1 && conc[j].t0 < conc[i].t1) { overlapping++; kinds_overlapping.insert(jobs[i].kind); break; }
    int siblings = 0;
    for (int i = 0; i < njobs; ++i) {
        if (alone[i].digest != conc[i].digest) VF_FAIL(cx, "concurrent-differs", "job %d (type %c, %s): output digest %016llx when run concurrently with %d other job(s) but %016llx when run alone (info %lld vs %lld, aborted %d vs %d)", i, jobs[i].type, kn[jobs[i].kind],
                                                       (unsigned long long)conc[i].digest, njobs - 1, (unsigned long long)alone[i].digest, conc[i].info, alone[i].info, (int)conc[i].aborted, (int)alone[i].aborted);
        if (alone[i].digest != again[i].digest) VF_FAIL(cx, "repeat-differs", "job %d (type %c, %s): repeating the call with identical arguments after %d unrelated calls gives digest %016llx instead of %016llx", i, jobs[i].type, kn[jobs[i].kind], 2 * njobs - 1,
                                                        (unsigned long long)again[i].digest, (unsigned long long)alone[i].digest);
        cx.label(std::string("job=") + kn[jobs[i].kind]);
        if (alone[i].aborted) cx.label("job-aborted(deterministically)");
        if (i > 0 && jobs[i].type == jobs[0].type && jobs[i].kind == jobs[0].kind) ++siblings;
    }
    if (siblings) cx.label("sibling-jobs(same routine, other problem)");
    cx.label(fmt("threads=%d", njobs)); cx.label(fmt("overlapping=%d", std::min(overlapping, 8)));
    cx.nontrivial = overlapping >= 2 && kinds_overlapping.size() >= 2;
}

const PropInfo vf_prop = {
    "C09",
    "2..8 independent jobs of mixed arithmetic type, each a generated call of ?gssv, ?gssvx with refinement + condition estimate + growth, ?gsisx, get_perm_c + sp_preorder, ?gstrf + ?gstrs, or ?ldperm; each job is run alone, then all jobs concurrently on their own threads "
    "(generated start skew; no synchronisation but thread start/join), then again in reverse order in one thread; oracle: the digest of all defined outputs (X, factors, permutations, etree, rcond, growth, ferr, berr, scale factors, info, refinement steps) of every job is bit-identical in the three runs; "
    "in the ThreadSanitizer build any reported data race ends the process and is a violation (happens-before detection does not need the bad interleaving to occur); "
    "every case is evaluated in a process forked from a helper that never entered the library (its history is exactly the case's own jobs, so a replay sees the same), about a third of the later jobs are 'siblings' of job 0 (same routine and arithmetic, other problem), "
    "15% of the problems are scaled to the bottom of the exponent range, and one job per case plus every refinement job of that kind is also run as the first library call of a fresh process and must give the same digest (state cached on a first call); "
    "non-trivial = at least two threads overlapping in time running jobs of at least two kinds (measured with timestamps outside the oracle); distinct = hash of consumed stream prefix",
    run, "d"};

}  // namespace vf
