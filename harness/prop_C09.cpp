// C09 - calls are reentrant, thread-safe and deterministic.
#include "expert.hpp"
#include <thread>
#include <atomic>
#include <chrono>

namespace vf {

struct JobResult { uint64_t digest = 0; bool aborted = false; long long info = -999; long leaked = 0; double t0 = 0, t1 = 0; };

static double now_s() { return std::chrono::duration<double>(std::chrono::steady_clock::now().time_since_epoch()).count(); }

template <class T> static JobResult run_job_T(unsigned kind, const uint8_t *d, size_t len, const std::set<std::string> &known)
{
    typedef typename Tr<T>::R R;
    const bool cplx = Tr<T>::is_complex, single = sizeof(R) == 4;
    JobResult jr; Choice c(d, len);
    int n = gen_size(c, 0, 10, 10);
    std::string family;
    auto pat = gen_pattern(c, n, n, PAT_NONSING, family);
    GMat G = gen_values(c, n, n, pat, cplx, single, family, false);
    if (maybe_exactly_singular(G)) {   // keep clear of singular factorizations (finding F-SS): make it column diagonally dominant
        for (int j = 0; j < n; ++j) { bool has = false; double s = 1; for (auto &e : G.col[j]) { if (e.first == j) has = true; else s += std::fabs(e.second.re) + std::fabs(e.second.im); } if (!has) { G.col[j].push_back({j, Val{0, 0}}); std::sort(G.col[j].begin(), G.col[j].end(), [](const std::pair<int, Val> &a, const std::pair<int, Val> &b) { return a.first < b.first; }); } for (auto &e : G.col[j]) if (e.first == j) { e.second.re = s; e.second.im = 0; } }
    }
    Opts o = gen_opts(c, n, single, true, true);
    if (cplx && o.nr && o.trans == CONJ && known.count("F07")) o.trans = TRANS;
    int nrhs = 1 + (int)c.below(2);
    uint64_t h = 1469598103934665603ULL;
    vf_case_begin(0xA5);
    apply_tuning(o.tune);
    jr.t0 = now_s();
    switch (kind % 6) {
    case 0: case 4: {   // simple driver / factor + solve
        Comp<T> S = to_comp<T>(G, kind % 6 == 0 ? o.nr : false, nullptr);
        std::vector<T> B = gen_rhs<T>(c, n, nrhs, n, cplx);
        superlu_options_t so; set_default_options(&so); apply_opts(o, so); so.ColPerm = o.colperm == MY_PERMC ? COLAMD : o.colperm;
        std::vector<int> perm_r(n, -1), perm_c(n, -1), etree(n, -1);
        MatView<T> A; A.create(S); DenseView<T> Bv; Bv.create(n, nrhs, B.data(), n);
        SuperMatrix L, U, AC; SuperLUStat_t stat; StatInit(&stat); GlobalLU_t Glu; int_t info = -999; int sinfo = 0; bool have_ac = false;
        jr.aborted = guarded([&] {
            if (kind % 6 == 0) Tr<T>::gssv(&so, &A.A, perm_c.data(), perm_r.data(), &L, &U, &Bv.X, &stat, &info);
            else { get_perm_c((int)so.ColPerm, &A.A, perm_c.data()); sp_preorder(&so, &A.A, perm_c.data(), etree.data(), &AC); have_ac = true;
                   Tr<T>::gstrf(&so, &AC, sp_ienv(2), sp_ienv(1), etree.data(), nullptr, 0, perm_c.data(), perm_r.data(), &L, &U, &Glu, &stat, &info);
                   if (info == 0) Tr<T>::gstrs(o.trans, &L, &U, perm_c.data(), perm_r.data(), &Bv.X, &stat, &sinfo); }
        }) != 0;
        jr.info = info;
        if (!jr.aborted) {
            h = dig_raw(h, &info, sizeof info); h = dig_raw(h, perm_c.data(), sizeof(int) * (size_t)n);
            if (info == 0) { h = dig_raw(h, B.data(), sizeof(T) * B.size()); uint64_t fd = factor_digest_raw<T>(&L, &U, perm_r.data(), perm_c.data(), n); h = dig_raw(h, &fd, sizeof fd); h = dig_raw(h, stat.ops, sizeof(flops_t) * 3); }
            if (info >= 0 && info <= n) { Destroy_SuperNode_Matrix(&L); Destroy_CompCol_Matrix(&U); }
            if (have_ac) Destroy_CompCol_Permuted(&AC);
            A.destroy(); Bv.destroy(); StatFree(&stat);
        }
        break; }
    case 1: case 2: {   // expert driver with refinement and condition estimate / ILU driver
        Expert<T> e; e.init(n, nrhs, n, n); e.ilu = (kind % 6 == 2);
        e.S = to_comp<T>(G, o.nr, nullptr); e.B = gen_rhs<T>(c, n, nrhs, n, cplx);
        if (e.ilu) { IluOpts io = gen_ilu_opts(c); if ((io.droprule & DROP_SECONDARY) && known.count("F-ILU-WORK2")) io.droprule |= DROP_INTERP; ilu_set_default_options(&e.so); apply_opts(o, e.so); apply_ilu(io, e.so); e.so.IterRefine = NOREFINE; }
        else { apply_opts(o, e.so); e.so.IterRefine = SLU_DOUBLE; }
        e.so.ConditionNumber = YES; e.so.PivotGrowth = YES; e.so.ColPerm = o.colperm == MY_PERMC ? MMD_ATA : o.colperm;
        if (e.ilu && known.count("F-ILU") && ilu_probe_breakdown(e)) { e.so.ConditionNumber = NO; e.so.PivotGrowth = NO; e.nrhs = 0; }   // known class: factor only
        e.bind();
        jr.aborted = e.call(); jr.info = e.info;
        if (!jr.aborted) {
            h = dig_raw(h, &e.info, sizeof e.info); h = dig_raw(h, e.equed, 1); h = dig_raw(h, e.perm_c.data(), sizeof(int) * (size_t)n); h = dig_raw(h, e.etree.data(), sizeof(int) * (size_t)n);
            bool okf = e.info == 0 || e.info == n + 1 || (e.ilu && e.info >= 0 && e.info <= n);
            if (okf && is_perm(e.perm_r.data(), n)) {
                h = dig_raw(h, e.X.data(), sizeof(T) * (size_t)n * nrhs); h = dig_raw(h, &e.rcond, sizeof(R)); h = dig_raw(h, &e.rpg, sizeof(R));
                if (!e.ilu) { h = dig_raw(h, e.ferr.data(), sizeof(R) * (size_t)nrhs); h = dig_raw(h, e.berr.data(), sizeof(R) * (size_t)nrhs); }
                if (e.rowequ()) h = dig_raw(h, e.Rs.data(), sizeof(R) * (size_t)n); if (e.colequ()) h = dig_raw(h, e.Cs.data(), sizeof(R) * (size_t)n);
                uint64_t fd = factor_digest_raw<T>(&e.L, &e.U, e.perm_r.data(), e.perm_c.data(), n); h = dig_raw(h, &fd, sizeof fd);
                h = dig_raw(h, &e.stat.RefineSteps, sizeof(int));
            }
            e.teardown();
        }
        break; }
    case 3: {   // ordering + elimination tree
        Comp<T> S = to_comp<T>(G, false, nullptr);
        superlu_options_t so; set_default_options(&so); so.ColPerm = o.colperm == MY_PERMC ? MMD_AT_PLUS_A : o.colperm; so.SymmetricMode = o.symmetric ? YES : NO;
        std::vector<int> perm_c(n, -1), etree(n, -1); MatView<T> A; A.create(S); SuperMatrix AC; bool have_ac = false;
        jr.aborted = guarded([&] { get_perm_c((int)so.ColPerm, &A.A, perm_c.data()); sp_preorder(&so, &A.A, perm_c.data(), etree.data(), &AC); have_ac = true; }) != 0;
        if (!jr.aborted) { h = dig_raw(h, perm_c.data(), sizeof(int) * (size_t)n); h = dig_raw(h, etree.data(), sizeof(int) * (size_t)n); if (have_ac) Destroy_CompCol_Permuted(&AC); A.destroy(); }
        jr.info = 0;
        break; }
    default: {   // large-diagonal permutation (MC64)
        for (auto &col : G.col) { std::vector<std::pair<int, Val>> keep; for (auto &e : col) if (e.second.re != 0 || e.second.im != 0) keep.push_back(e); col.swap(keep); }
        Comp<T> S = to_comp<T>(G, false, nullptr);
        std::vector<int> perm(n, -1); std::vector<R> u(n, 0), v(n, 0); int ret = -999;
        jr.aborted = guarded([&] { ret = Tr<T>::ldperm(5, n, S.nnz(), S.ptr.data(), S.idx.data(), S.val.data(), perm.data(), u.data(), v.data()); }) != 0;
        if (!jr.aborted) { h = dig_raw(h, &ret, sizeof ret); h = dig_raw(h, perm.data(), sizeof(int) * (size_t)n); if (ret == 0) { h = dig_raw(h, u.data(), sizeof(R) * (size_t)n); h = dig_raw(h, v.data(), sizeof(R) * (size_t)n); } }
        jr.info = ret;
        break; }
    }
    jr.t1 = now_s();
    if (jr.aborted) { h = dig_raw(h, "abort", 5); vf_purge(); }
    jr.leaked = vf_live_blocks(); if (jr.leaked) vf_purge();
    jr.digest = h;
    return jr;
}

static JobResult run_job(char type, unsigned kind, const uint8_t *d, size_t len, const std::set<std::string> &known)
{
    switch (type) {
    case 's': return run_job_T<float>(kind, d, len, known);
    case 'd': return run_job_T<double>(kind, d, len, known);
    case 'c': return run_job_T<cfloat>(kind, d, len, known);
    default: return run_job_T<cdouble>(kind, d, len, known);
    }
}

static void run(char, Choice &c, Ctx &cx)
{
    int njobs = 2 + (int)c.below(7);
    struct Job { char type; unsigned kind; std::vector<uint8_t> bytes; unsigned skew; };
    std::vector<Job> jobs(njobs);
    static const char tl[] = "dszc";
    static const char *kn[] = {"gssv", "gssvx+refine+cond", "gsisx", "get_perm_c+sp_preorder", "gstrf+gstrs", "ldperm"};
    for (auto &j : jobs) { j.type = tl[c.below(4)]; j.kind = c.below(6); size_t len = 24 + c.below(72); j.bytes.resize(len); for (auto &b : j.bytes) b = c.u8(); j.skew = c.u8(); }
    cx.hash = fnv1a(c.d, c.consumed(), 0xC09ULL);
    if (cx.dump) { cx.d(fmt("%d jobs", njobs)); for (int i = 0; i < njobs; ++i) cx.d(fmt("  job %d: type %c %s (%zu bytes, start skew %u)", i, jobs[i].type, kn[jobs[i].kind], jobs[i].bytes.size(), jobs[i].skew)); }
    // (1) every job alone
    std::vector<JobResult> alone(njobs), conc(njobs), again(njobs);
    for (int i = 0; i < njobs; ++i) alone[i] = run_job(jobs[i].type, jobs[i].kind, jobs[i].bytes.data(), jobs[i].bytes.size(), cx.known);
    // (2) all jobs concurrently; the only synchronisation between them is thread start / join
    std::atomic<int> ready(0); std::atomic<bool> go(false);
    std::vector<std::thread> th;
    for (int i = 0; i < njobs; ++i) th.emplace_back([&, i] {
        ready++; while (!go.load()) {}
        volatile unsigned spin = 0; for (unsigned k = 0; k < jobs[i].skew * 200u; ++k) spin += k;
        conc[i] = run_job(jobs[i].type, jobs[i].kind, jobs[i].bytes.data(), jobs[i].bytes.size(), cx.known);
    });
    while (ready.load() < njobs) {}
    go.store(true);
    for (auto &t : th) t.join();
    // (3) history: the same jobs again, in reverse order, in this thread
    for (int i = njobs - 1; i >= 0; --i) again[i] = run_job(jobs[i].type, jobs[i].kind, jobs[i].bytes.data(), jobs[i].bytes.size(), cx.known);
    int overlapping = 0; std::set<unsigned> kinds_overlapping;
    for (int i = 0; i < njobs; ++i) for (int j = 0; j < njobs; ++j) if (i != j && conc[i].t0 < conc[j].t1 && conc[j].t0 < conc[i].t1) { overlapping++; kinds_overlapping.insert(jobs[i].kind); break; }
    for (int i = 0; i < njobs; ++i) {
        if (alone[i].digest != conc[i].digest) VF_FAIL(cx, "concurrent-differs", "job %d (type %c, %s): output digest %016llx when run concurrently with %d other job(s) but %016llx when run alone (info %lld vs %lld, aborted %d vs %d)", i, jobs[i].type, kn[jobs[i].kind],
                                                       (unsigned long long)conc[i].digest, njobs - 1, (unsigned long long)alone[i].digest, conc[i].info, alone[i].info, (int)conc[i].aborted, (int)alone[i].aborted);
        if (alone[i].digest != again[i].digest) VF_FAIL(cx, "repeat-differs", "job %d (type %c, %s): repeating the call with identical arguments after %d unrelated calls gives digest %016llx instead of %016llx", i, jobs[i].type, kn[jobs[i].kind], 2 * njobs - 1,
                                                        (unsigned long long)again[i].digest, (unsigned long long)alone[i].digest);
        cx.label(std::string("job=") + kn[jobs[i].kind]);
        if (alone[i].aborted) cx.label("job-aborted(deterministically)");
    }
    cx.label(fmt("threads=%d", njobs)); cx.label(fmt("overlapping=%d", std::min(overlapping, 8)));
    cx.nontrivial = overlapping >= 2 && kinds_overlapping.size() >= 2;
}

const PropInfo vf_prop = {
    "C09",
    "2..8 independent jobs of mixed arithmetic type, each a generated call of ?gssv, ?gssvx with refinement + condition estimate + growth, ?gsisx, get_perm_c + sp_preorder, ?gstrf + ?gstrs, or ?ldperm; each job is run alone, then all jobs concurrently on their own threads "
    "(generated start skew; no synchronisation but thread start/join), then again in reverse order in one thread; oracle: the digest of all defined outputs (X, factors, permutations, etree, rcond, growth, ferr, berr, scale factors, info, refinement steps) of every job is bit-identical in the three runs; "
    "in the ThreadSanitizer build any reported data race ends the process and is a violation (happens-before detection does not need the bad interleaving to occur); "
    "non-trivial = at least two threads overlapping in time running jobs of at least two kinds (measured with timestamps outside the oracle); distinct = hash of consumed stream prefix",
    run, "d"};

}  // namespace vf
