// C12 - the condition estimate is a valid one-sided bound; the growth factor matches the factors.
#include "expert.hpp"
#include "isolate.hpp"

namespace vf {

template <class W> static bool invert(const Dense<W> &A, Dense<W> &Inv)
{
    int n = A.m; Dense<W> M = A; Inv = Dense<W>(n, n);
    for (int i = 0; i < n; ++i) Inv(i, i) = W(1);
    for (int k = 0; k < n; ++k) {
        int p = k; for (int i = k + 1; i < n; ++i) if (absm(M(i, k)) > absm(M(p, k))) p = i;
        if (absm(M(p, k)) == 0) return false;
        if (p != k) for (int j = 0; j < n; ++j) { std::swap(M(p, j), M(k, j)); std::swap(Inv(p, j), Inv(k, j)); }
        W d = M(k, k);
        for (int j = 0; j < n; ++j) { M(k, j) /= d; Inv(k, j) /= d; }
        for (int i = 0; i < n; ++i) if (i != k && M(i, k) != W(0)) { W f = M(i, k); for (int j = 0; j < n; ++j) { M(i, j) -= f * M(k, j); Inv(i, j) -= f * Inv(k, j); } }
    }
    return true;
}
template <class W> static LD norm1(const Dense<W> &A) { LD v = 0; for (int j = 0; j < A.n; ++j) { LD s = 0; for (int i = 0; i < A.m; ++i) s += absm(A(i, j)); v = std::max(v, s); } return v; }
template <class W> static LD normI(const Dense<W> &A) { LD v = 0; for (int i = 0; i < A.m; ++i) { LD s = 0; for (int j = 0; j < A.n; ++j) s += absm(A(i, j)); v = std::max(v, s); } return v; }
static LD norm1r(const Dense<LD> &A) { LD v = 0; for (int j = 0; j < A.n; ++j) { LD s = 0; for (int i = 0; i < A.m; ++i) s += A(i, j); v = std::max(v, s); } return v; }
static LD normIr(const Dense<LD> &A) { LD v = 0; for (int i = 0; i < A.m; ++i) { LD s = 0; for (int j = 0; j < A.n; ++j) s += A(i, j); v = std::max(v, s); } return v; }

// reference reciprocal pivot growth over the first `ncols` permuted columns, read defensively from the factor arrays
template <class T>
static bool ref_growth(Ctx &cx, const Expert<T> &e, int ncols, LD &out, bool &inconsistent)
{
    inconsistent = false;
    typedef typename Wide<T>::W W; typedef typename Tr<T>::R R;
    int n = e.n;
    const SCformat *Ls = (const SCformat *)e.L.Store; const NCformat *Us = (const NCformat *)e.U.Store;
    VF_REQUIREB(cx, Ls && Us && region_ok(Ls->col_to_sup, sizeof(int) * (size_t)n) && region_ok(Ls->rowind_colptr, sizeof(int_t) * (size_t)(n + 1)) && region_ok(Ls->nzval_colptr, sizeof(int_t) * (size_t)(n + 1)) && region_ok(Us->colptr, sizeof(int_t) * (size_t)(n + 1)), "growth-factors", "factor pointer arrays not addressable");
    std::vector<int> ipc(n); for (int j = 0; j < n; ++j) ipc[e.perm_c[j]] = j;
    LD rpg = 1 / (LD)std::numeric_limits<R>::min();
    const T *lval = (const T *)Ls->nzval, *uval = (const T *)Us->nzval;
    for (int j = 0; j < ncols; ++j) {
        int col = ipc[j];                          // column of AA sitting at position j
        LD maxa = 0;
        for (int_t p = e.S.ptr[col]; p < e.S.ptr[col + 1]; ++p) maxa = std::max(maxa, abs1(widen<T>(e.S.val[p])));
        LD maxu = 0;
        int_t ub = Us->colptr[j], ue = Us->colptr[j + 1];
        VF_REQUIREB(cx, ub >= 0 && ue >= ub && region_ok(Us->nzval, sizeof(T) * (size_t)ue), "growth-factors", "U column %d not addressable", j);
        for (int_t p = ub; p < ue; ++p) maxu = std::max(maxu, abs1(widen<T>(uval[p])));
        int s = Ls->col_to_sup[j];
        VF_REQUIREB(cx, s >= 0 && s < n && region_ok(Ls->sup_to_col, sizeof(int) * (size_t)(s + 2)), "growth-factors", "col_to_sup[%d]=%d", j, s);
        int f = Ls->sup_to_col[s];
        int_t nsupr = Ls->rowind_colptr[f + 1] - Ls->rowind_colptr[f], vb = Ls->nzval_colptr[j];
        int_t cnt = std::min<int_t>(j - f + 1, nsupr);
        if (nsupr < j - f + 1) inconsistent = true;   // supernode with fewer rows than columns: only after a column without candidates (finding F-SS)
        VF_REQUIREB(cx, f >= 0 && f <= j && vb >= 0 && cnt >= 0 && region_ok(Ls->nzval, sizeof(T) * (size_t)(vb + cnt)), "growth-factors", "column %d of the supernodal store not addressable", j);
        for (int_t t = 0; t < cnt; ++t) maxu = std::max(maxu, abs1(widen<T>(lval[vb + t])));
        LD r = maxu == 0 ? (LD)1 : maxa / maxu;
        rpg = std::min(rpg, r);
    }
    out = rpg;
    return true;
}

template <class T> struct CondCase { int n; Opts o; GMat G; Comp<T> S; int nrhs; std::vector<T> B; };

template <class T> static void body(Ctx &cx, CondCase<T> &cc, unsigned char fill)
{
    typedef typename Wide<T>::W W; typedef typename Tr<T>::R R;
    int n = cc.n; Opts &o = cc.o;
    vf_case_begin(fill);
    apply_tuning(o.tune);
    Expert<T> e; e.init(n, cc.nrhs, n, n);
    e.S = cc.S; e.B = cc.B;
    apply_opts(o, e.so);
    e.so.ConditionNumber = YES; e.so.PivotGrowth = YES;
    if (o.colperm == MY_PERMC) e.perm_c = o.my_perm_c;
    e.bind();
    if (e.call()) { cx.fail("abort", fmt("gssvx: library called ABORT: %s", vf_abort_msg())); vf_purge(); return; }
    long long info = e.info;
    if (info < 0 || info > n + 1) { e.lu_live = false; e.teardown(); vf_purge(); VF_FAIL(cx, "info", "valid call returned info=%lld", info); }
    LD uu = Consts<T>::u();
    bool ok = true; bool nt = false;
    do {
        // growth factor: over all columns on success, over the leading info columns of a singular factorization
        int gcols = (info >= 1 && info <= n) ? (int)info : n;
        LD ref; bool inconsistent = false;
        if (!ref_growth<T>(cx, e, gcols, ref, inconsistent)) { ok = false; break; }
        if (inconsistent && info >= 1 && info <= n && cx.is_known("F-SS")) { cx.exclude("F-SS"); cx.label("F-SS:inconsistent-supernode(growth not judged)"); cx.label("singular-return"); break; }
        if (!(std::fabs((LD)e.rpg - ref) <= 8 * uu * ref)) { cx.fail("pivot-growth", fmt("recip_pivot_growth=%.9g but min_j max|A_j|/max|U_j| over the first %d permuted columns of the returned factors is %.9Lg (info=%lld)", (double)e.rpg, gcols, ref, info)); ok = false; break; }
        if (info >= 1 && info <= n) { cx.label("singular-return"); cx.label(info > 1 ? "growth:singular,info>1" : "growth:singular,info=1"); nt = info > 1; break; }
        // ---- nonsingular: condition estimate -------------------------------------------------
        Dense<W> AAeq = factored_matrix(e);
        LUDecoded<T> dec;
        if (!check_lu<T>(cx, AAeq, e.perm_r.data(), e.perm_c.data(), &e.L, &e.U, o.u, true, false, dec)) { ok = false; break; }
        if (dec.degenerate) { cx.skip("overflow-degenerate"); break; }
        bool notran_eff = o.nr ? (o.trans != NOTRANS) : (o.trans == NOTRANS);
        Dense<W> Inv;
        if (!invert(AAeq, Inv)) { cx.skip("reference-singular"); break; }
        LD eps = (LD)Tr<T>::eps();
        if ((info == n + 1) != ((LD)e.rcond < eps)) { cx.fail("rcond-warning", fmt("rcond=%.9g, machine epsilon %.9Lg, but info=%lld: info=n+1 must be raised exactly when rcond < eps", (double)e.rcond, eps, info)); ok = false; break; }
        // direct calls with both norms on the returned factors, and the driver's own value
        for (int which = 0; which < 3 && ok; ++which) {
            bool one = which == 0 ? notran_eff : (which == 1);
            LD anorm_ref = one ? norm1(AAeq) : normI(AAeq), inorm = one ? norm1(Inv) : normI(Inv);
            LD kappa = anorm_ref * inorm;
            Dense<LD> F = permute_back(dec.E, e.perm_r.data(), e.perm_c.data(), n, false);
            LD fn = one ? norm1r(F) : normIr(F);
            LD rho = fn / anorm_ref;
            LD rc;
            if (which == 0) rc = e.rcond;
            else {
                char nm[2] = {one ? '1' : 'I', 0};
                MatView<T> AAv; Comp<T> Scol = e.S; Scol.byrow = false;   // storage of AA in column form (for NR the arrays already describe A^T by columns)
                AAv.create(Scol);
                R an = 0, rcv = -1; int ginfo = -999;
                bool ab = guarded([&] { an = Tr<T>::langs(nm, &AAv.A); Tr<T>::gscon(nm, &e.L, &e.U, an, &rcv, &e.stat, &ginfo); });
                AAv.destroy();
                if (ab) { cx.fail("abort", fmt("gscon: library called ABORT: %s", vf_abort_msg())); ok = false; break; }
                if (ginfo != 0) { cx.fail("gscon-info", fmt("gscon('%s') returned info=%d", nm, ginfo)); ok = false; break; }
                if (!(std::fabs((LD)an - anorm_ref) <= 4 * (n + 2) * uu * anorm_ref)) { cx.fail("langs", fmt("langs('%s')=%.9g, reference norm %.9Lg", nm, (double)an, anorm_ref)); ok = false; break; }
                rc = rcv;
            }
            const char *nm = one ? "1" : "I";
            LD slack = Consts<T>::c() * n * uu * std::max((LD)1, rho);
            if (!(rc <= 1 + slack)) { cx.fail("rcond-above-one", fmt("rcond(%s-norm)=%.9Lg exceeds 1", nm, rc)); ok = false; break; }
            if (!(rc >= 0) || !std::isfinite((double)rc)) { cx.fail("rcond-range", fmt("rcond(%s-norm)=%.9Lg", nm, rc)); ok = false; break; }
            LD delta = Consts<T>::c() * n * uu * kappa * rho;
            if (delta < 0.5L) {
                LD lower = (1 - delta) * (1 - 4 * (n + 2) * uu) / kappa;
                if (!(rc >= lower)) { cx.fail("rcond-too-small", fmt("rcond(%s-norm)=%.9Lg is below the true reciprocal condition number %.9Lg (kappa=%.6Lg) by more than rounding (delta=%.3Lg)", nm, rc, 1 / kappa, kappa, delta)); ok = false; break; }
                if (kappa > 100) nt = true;
                if (!one) nt = true;
                cx.label(kappa > 1e6L ? "kappa>1e6" : (kappa > 100 ? "kappa>100" : "kappa<=100"));
            } else cx.label("illcond(lower bound not judged)");
        }
        if (info == n + 1) cx.label("info=n+1");
    } while (0);
    e.teardown();
    if (!ok) { vf_purge(); return; }
    if (!ledger_clean(cx, "after the expert driver")) return;
    cx.nontrivial = nt && !cx.skipped;
}

template <class T> static void run_T(Choice &c, Ctx &cx)
{
    typedef typename Tr<T>::R R;
    const bool cplx = Tr<T>::is_complex, single = sizeof(R) == 4;
    CondCase<T> cc;
    int n = cc.n = gen_size(c, cx.tier);
    unsigned kind = c.below(8);              // 0..5 nonsingular (varying conditioning), 6,7 singular (growth factor clause)
    std::string family;
    auto pat = gen_pattern(c, n, n, kind >= 6 ? (c.chance(128) ? PAT_SINGULAR : PAT_NONSING) : PAT_NONSING, family);
    GMat G = gen_values(c, n, n, pat, cplx, single, family);
    if (kind >= 6 && n >= 2) {   // make one column a copy / multiple of another: exactly singular unless already so
        int t = (int)c.below((unsigned)n), a = (int)c.below((unsigned)n); if (a == t) a = (t + 1) % n;
        G.col[t] = G.col[a]; for (auto &e : G.col[t]) { e.second.re *= 2; e.second.im *= 2; }
        G.family += "+duplicate-column";
    } else if (kind >= 3 && n >= 2) {
        // raise the condition number: add 2^-k times a copy of another column to make two columns nearly dependent
        int t = (int)c.below((unsigned)n), a = (int)c.below((unsigned)n); if (a == t) a = (t + 1) % n;
        int k = 4 + (int)c.below(single ? 14u : 40u);
        std::vector<double> vr(n, 0), vi(n, 0); std::vector<char> st(n, 0);
        for (auto &e : G.col[a]) { vr[e.first] = e.second.re; vi[e.first] = e.second.im; st[e.first] = 1; }
        for (auto &e : G.col[t]) { vr[e.first] += std::ldexp(e.second.re, -k); vi[e.first] += std::ldexp(e.second.im, -k); st[e.first] = 1; }
        G.col[t].clear(); for (int i = 0; i < n; ++i) if (st[i]) G.col[t].push_back({i, Val{vr[i], vi[i]}});
        G.family += "+near-dependent";
    }
    cc.G = G;
    cc.o = gen_opts(c, n, single, true, true);
    cc.o.refine = NOREFINE;
    cc.nrhs = c.chance(80) ? 1 : 0;
    if (cplx && cc.o.nr && cc.o.trans == CONJ && cx.is_known("F07")) cc.o.trans = TRANS;
    cc.S = to_comp<T>(G, cc.o.nr, cc.o.shuffle_rows ? &c : nullptr);
    cc.B = gen_rhs<T>(c, n, cc.nrhs, n, cplx);
    cx.hash = fnv1a(c.d, c.consumed(), 0xC12ULL ^ ((uint64_t)Tr<T>::letter << 32));
    if (cx.dump) { cx.d(fmt("gssvx(ConditionNumber, PivotGrowth) n=%d kind=%u", n, kind)); cx.d(opts_str(cc.o, true)); cx.d(gmat_str(G, cplx)); }
    cx.label(kind >= 6 ? "kind=singular" : (kind >= 3 ? "kind=near-dependent" : "kind=plain"));
    cx.label(cc.o.equil ? "Equil=YES" : "Equil=NO"); cx.label(cc.o.nr ? "storage=NR" : "storage=NC");
    bool in_class = maybe_exactly_singular(G), open = cx.is_known("F-SS");
    if (!(open && in_class)) { body<T>(cx, cc, cx.fill(0xA5)); return; }
    // exactly singular input while finding F-SS is open: isolated, zero-filled fresh blocks (see C04)
    IsoResult r = run_isolated(cx, [&](Ctx &ccx) { body<T>(ccx, cc, cx.fill(0x00)); }, 20);
    if (r.status != IsoResult::OK) { cx.exclude("F-SS"); cx.label("F-SS:crash"); }
}

static void run(char type, Choice &c, Ctx &cx)
{
    switch (type) {
    case 's': run_T<float>(c, cx); break;
    case 'd': run_T<double>(c, cx); break;
    case 'c': run_T<cfloat>(c, cx); break;
    default: run_T<cdouble>(c, cx); break;
    }
}

const PropInfo vf_prop = {
    "C12",
    "square A: plain, with two nearly dependent columns (distance 2^-4..2^-43, condition up to 1e13 / 1e5 single), or exactly singular (duplicate column, structurally singular patterns); NC/NR, Equil on/off, all Trans, orderings, thresholds, tunings; "
    "?gssvx with ConditionNumber and PivotGrowth, plus direct ?langs + ?gscon calls with both norms on the returned factors; oracle: kappa = ||AA|| ||AA^-1|| by long-double inversion of the matrix as factored; "
    "rcond <= 1 + c*n*eps*max(1,rho), rcond >= (1-delta)/kappa with delta = c*n*eps*kappa*rho judged when delta < 1/2 (rho = ||Pr^T|L||U|Pc^T|| / ||AA||), info = n+1 iff rcond < eps (exact), ?langs equals the reference norm, "
    "recip_pivot_growth = min(1/safmin, min_j max|AA_j|/max|U_j|) recomputed from the factor arrays over all columns or over the leading info columns of a singular return; "
    "non-trivial = kappa > 100, or the infinity norm judged, or a singular return with info > 1; distinct = hash of consumed stream prefix and type",
    run, "sdcz"};

}  // namespace vf
