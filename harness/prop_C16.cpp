// C16 - the matrix file readers return exactly the matrix in the file.
#include "drive.hpp"
#include <cstdio>

extern "C" void dreadtriple_noheader(int *, int *, int_t *, double **, int_t **, int_t **);

namespace vf {

struct IntFmt { int per, w; bool lower; };
struct ValFmt { int per, w, d; char letter; bool lower; int kp; };   // kp < 0: no scale-factor prefix

static IntFmt gen_intfmt(Choice &c, long maxval)
{
    int digits = 1; for (long v = maxval; v >= 10; v /= 10) ++digits;
    IntFmt f; f.w = digits + (int)c.below(6); if (f.w > 14) f.w = 14; if (f.w < digits) f.w = digits;
    int maxper = 80 / f.w; f.per = 1 + (int)c.below((unsigned)maxper); f.lower = c.chance(64);
    return f;
}
static std::string intfmt_str(const IntFmt &f) { return fmt("(%d%c%d)", f.per, f.lower ? 'i' : 'I', f.w); }

static ValFmt gen_valfmt(Choice &c, bool single, bool allowF)
{
    ValFmt f;
    unsigned k = c.below(allowF ? 6u : 4u);
    f.letter = k <= 1 ? 'E' : (k <= 3 ? 'D' : 'F');
    f.lower = c.chance(64);
    int full = single ? 8 : 16;                        // digits after the point giving an exact round trip in E/D form
    if (f.letter == 'F') { f.d = 10 + (int)c.below(8); f.w = f.d + 8 + (int)c.below(4); }
    else { f.d = c.chance(150) ? full : (3 + (int)c.below((unsigned)full - 2)); f.w = f.d + 9 + (int)c.below(4); }
    if (f.w > 40) f.w = 40;
    int maxper = 80 / f.w; if (maxper < 1) maxper = 1;
    f.per = 1 + (int)c.below((unsigned)maxper);
    f.kp = (f.letter != 'F' && c.chance(70)) ? 1 : -1;    // the form the reader's comment describes: (1P6E13.6)
    return f;
}
static std::string valfmt_str(const ValFmt &f)
{
    char L = f.lower ? (char)tolower(f.letter) : f.letter;
    if (f.kp >= 0) return fmt("(%d%c%d%c%d.%d)", f.kp, f.lower ? 'p' : 'P', f.per, L, f.w, f.d);
    return fmt("(%d%c%d.%d)", f.per, L, f.w, f.d);
}
static std::string field(const ValFmt &f, double v)
{
    char buf[96];
    if (f.letter == 'F') snprintf(buf, sizeof buf, "%*.*f", f.w, f.d, v);
    else {
        snprintf(buf, sizeof buf, "%*.*E", f.w, f.d, v);
        if (f.letter == 'D') for (char *p = buf; *p; ++p) if (*p == 'E') *p = 'D';
        if (f.lower) for (char *p = buf; *p; ++p) if (*p == 'E' || *p == 'D') *p = (char)tolower(*p);
    }
    return std::string(buf);
}
// tolerance implied by the printed precision (0 = exact round trip expected)
static double field_tol(const ValFmt &f, double v, bool single)
{
    int full = single ? 8 : 16;
    if (f.letter == 'F') return 0.5000001 * std::pow(10.0, -f.d) + std::fabs(v) * (single ? 6e-8 : 1.2e-16);
    if (f.d >= full) return 0.0;
    int e10 = v == 0 ? 0 : (int)std::floor(std::log10(std::fabs(v)));
    return 0.5000001 * std::pow(10.0, e10 - f.d) + std::fabs(v) * (single ? 6e-8 : 1.2e-16);
}

static void emit_ints(std::string &out, const std::vector<long> &v, const IntFmt &f)
{
    for (size_t i = 0; i < v.size(); ++i) { out += fmt("%*ld", f.w, v[i]); if ((i + 1) % f.per == 0 || i + 1 == v.size()) out += "\n"; }
}
static void emit_vals(std::string &out, const std::vector<double> &v, const ValFmt &f)
{
    for (size_t i = 0; i < v.size(); ++i) { out += field(f, v[i]); if ((i + 1) % f.per == 0 || i + 1 == v.size()) out += "\n"; }
}
static long lines_for(size_t count, int per) { return (long)((count + per - 1) / per); }

struct Entry { int r, c; double re, im, tol; };

// "Any entry order in coordinate files": one byte picks the order.  Above 95: a random shuffle (as before); otherwise one of the
// structured orders a program that dumps a matrix produces - column-major (as stored), row-major, either of them backwards,
// columns descending with rows ascending.  A zero byte keeps the stored order.
template <class E> static void order_entries(vf::Choice &c, std::vector<E> &sh, vf::Ctx &cx)
{
    unsigned b = c.u8();
    if (sh.size() < 2) return;
    if (b > 95) { for (size_t i = 0; i + 1 < sh.size(); ++i) { size_t j = i + c.below((unsigned)(sh.size() - i)); std::swap(sh[i], sh[j]); } cx.label("shuffled-entries"); return; }
    unsigned k = b < 32 ? 0 : 1 + (b - 32) / 16;
    auto colmajor = [](const E &x, const E &y) { return x.c != y.c ? x.c < y.c : x.r < y.r; };
    auto rowmajor = [](const E &x, const E &y) { return x.r != y.r ? x.r < y.r : x.c < y.c; };
    switch (k) {
    case 0: return;
    case 1: std::stable_sort(sh.begin(), sh.end(), rowmajor); cx.label("order=row-major"); break;
    case 2: std::stable_sort(sh.begin(), sh.end(), colmajor); std::reverse(sh.begin(), sh.end()); cx.label("order=column-major-reversed"); break;
    case 3: std::stable_sort(sh.begin(), sh.end(), rowmajor); std::reverse(sh.begin(), sh.end()); cx.label("order=row-major-reversed"); break;
    default: std::stable_sort(sh.begin(), sh.end(), [](const E &x, const E &y) { return x.c != y.c ? x.c > y.c : x.r < y.r; }); cx.label("order=columns-descending"); break;
    }
    cx.label("shuffled-entries");
}

template <class T> static void run_T(Choice &c, Ctx &cx)
{
    typedef typename Tr<T>::R R;
    const bool cplx = Tr<T>::is_complex, single = sizeof(R) == 4;
    unsigned fmtk = c.below(Tr<T>::letter == 'd' ? 9u : 8u);  // 0-2 HB, 3-4 RB, 5-6 MM, 7 triplet, 8 triplet without header (double only)
    int n = gen_size(c, cx.tier);
    bool sym = (fmtk <= 6) && c.chance(110);
    std::string family;
    auto pat = gen_pattern(c, n, n, PAT_ANY, family);
    GMat G = gen_values(c, n, n, pat, cplx, single, family, false);
    // stored entries: for symmetric files only the lower triangle (diagonal entries present or absent as generated)
    bool drop_diag = sym && c.chance(128);
    std::vector<Entry> stored;
    for (int j = 0; j < n; ++j) for (auto &e : G.col[j]) {
        if (sym && e.first < j) continue;
        if (sym && drop_diag && e.first == j && c.chance(160)) continue;
        Entry en; en.r = e.first; en.c = j; en.re = single ? (double)(float)e.second.re : e.second.re; en.im = cplx ? (single ? (double)(float)e.second.im : e.second.im) : 0; en.tol = 0;
        stored.push_back(en);
    }
    bool has_last = false; for (auto &e : stored) if (e.r == n - 1 || e.c == n - 1) has_last = true;
    if (fmtk == 8 && (!has_last || stored.empty())) { Entry en; en.r = n - 1; en.c = n - 1; en.re = 1; en.im = 0; en.tol = 0; bool dup = false; for (auto &e : stored) if (e.r == en.r && e.c == en.c) dup = true; if (!dup) stored.push_back(en); }
    size_t nnz = stored.size();
    bool diag_missing = false;
    if (sym) { std::vector<char> d(n, 0); for (auto &e : stored) if (e.r == e.c) d[e.r] = 1; for (int i = 0; i < n; ++i) if (!d[i]) diag_missing = true; }
    std::string text; const char *kind = "";
    bool zero_based = false;
    ValFmt vf; vf.letter = 'E'; vf.d = 16; vf.w = 25; vf.per = 1; vf.lower = false; vf.kp = -1;
    if (fmtk <= 4) {
        bool hb = fmtk <= 2; kind = hb ? "harwell-boeing" : "rutherford-boeing";
        // column-compressed: entries sorted by column (they are), pointers 1-based
        std::vector<long> ptr(n + 1, 0), ind; std::vector<double> vals;
        for (auto &e : stored) ptr[e.c + 1]++;
        for (int j = 0; j < n; ++j) ptr[j + 1] += ptr[j];
        for (auto &e : stored) { ind.push_back(e.r + 1); }
        IntFmt pf = gen_intfmt(c, (long)nnz + 1), inf = gen_intfmt(c, n);
        bool allowF = true; for (auto &e : stored) if (std::fabs(e.re) > 1e6 || std::fabs(e.im) > 1e6 || (e.re != 0 && std::fabs(e.re) < 1e-4) || (e.im != 0 && std::fabs(e.im) < 1e-4)) allowF = false;
        vf = gen_valfmt(c, single, allowF);
        for (auto &e : stored) { vals.push_back(e.re); if (cplx) vals.push_back(e.im); e.tol = std::max(field_tol(vf, e.re, single), cplx ? field_tol(vf, e.im, single) : 0.0); }
        for (auto &p : ptr) p += 1;
        bool rhs = hb && c.chance(90);
        long ptrcrd = lines_for(ptr.size(), pf.per), indcrd = lines_for(ind.size(), inf.per), valcrd = lines_for(vals.size(), vf.per);
        long rhscrd = rhs ? lines_for((size_t)n * (cplx ? 2 : 1), vf.per) : 0;
        std::string type = std::string(cplx ? "C" : "R") + (sym ? "S" : "U") + "A";
        if (c.chance(40)) for (auto &ch : type) ch = (char)tolower(ch);
        text += fmt("%-72s%-8s\n", "generated by the verification harness", "VF");
        if (hb) text += fmt("%14ld%14ld%14ld%14ld%14ld\n", ptrcrd + indcrd + valcrd + rhscrd, ptrcrd, indcrd, valcrd, rhscrd);
        else text += fmt("%14ld%14ld%14ld%14ld\n", ptrcrd + indcrd + valcrd, ptrcrd, indcrd, valcrd);
        text += fmt("%-3s%11s%14d%14d%14ld%14d\n", type.c_str(), "", n, n, (long)nnz, 0);
        if (hb) text += fmt("%-16s%-16s%-20s%-20s\n", intfmt_str(pf).c_str(), intfmt_str(inf).c_str(), valfmt_str(vf).c_str(), rhs ? valfmt_str(vf).c_str() : "");
        else text += fmt("%-16s%-16s%-20s\n", intfmt_str(pf).c_str(), intfmt_str(inf).c_str(), valfmt_str(vf).c_str());
        if (rhs) text += fmt("%-3s%11s%14d%14d\n", "F", "", 1, 0);
        emit_ints(text, ptr, pf); emit_ints(text, ind, inf);
        if (!vals.empty()) emit_vals(text, vals, vf); else if (valcrd == 0) {}
        if (rhs) { std::vector<double> b((size_t)n * (cplx ? 2 : 1), 1.5); emit_vals(text, b, vf); }
        cx.label(std::string("valfmt=") + vf.letter + (vf.kp >= 0 ? "+P" : "")); if (rhs) cx.label("rhs-block");
    } else if (fmtk <= 6) {
        kind = "matrix-market";
        std::string hdr = fmt("%%%%MatrixMarket matrix coordinate %s %s", cplx ? "complex" : "real", sym ? "symmetric" : "general");
        if (c.chance(60)) for (auto &ch : hdr) ch = (char)toupper(ch);
        text += hdr + "\n";
        int ncomm = (int)c.below(3); for (int k = 0; k < ncomm; ++k) text += "% a comment line\n";
        text += fmt("%d %d %zu\n", n, n, nnz);
        std::vector<Entry> sh = stored;
        order_entries(c, sh, cx);
        int dig = c.chance(170) ? (single ? 9 : 17) : 4 + (int)c.below(6);
        for (auto &e : sh) {
            if (cplx) text += fmt("%d %d %.*g %.*g\n", e.r + 1, e.c + 1, dig, e.re, dig, e.im); else text += fmt("%d %d %.*g\n", e.r + 1, e.c + 1, dig, e.re);
        }
        if (dig < (single ? 9 : 17)) for (auto &e : stored) { auto t = [&](double v) { if (v == 0) return 0.0; int e10 = (int)std::floor(std::log10(std::fabs(v))); return 0.5000001 * std::pow(10.0, e10 - dig + 1) + std::fabs(v) * (single ? 6e-8 : 1.2e-16); }; e.tol = std::max(t(e.re), t(e.im)); }
    } else {
        kind = fmtk == 7 ? "triplet" : "triplet-noheader";
        zero_based = c.chance(100);
        std::vector<Entry> sh = stored;
        order_entries(c, sh, cx);
        if (fmtk == 7) {
            // 0-based is recognised by a zero in the first entry; 1-based files cannot contain one
            if (zero_based) { size_t z = sh.size(); for (size_t i = 0; i < sh.size(); ++i) if (sh[i].r == 0 || sh[i].c == 0) { z = i; break; } if (z == sh.size()) zero_based = false; else std::swap(sh[0], sh[z]); }
            text += fmt("%d %zu\n", n, nnz);
        } else {
            // header-less: dimension = largest index, 0-based iff some index is 0
            if (zero_based) { bool z = false; for (auto &e : sh) if (e.r == 0 || e.c == 0) z = true; if (!z) zero_based = false; }
        }
        int off = zero_based ? 0 : 1;
        for (auto &e : sh) { if (cplx) text += fmt("%d %d %.*g %.*g\n", e.r + off, e.c + off, single ? 9 : 17, e.re, single ? 9 : 17, e.im); else text += fmt("%d %d %.*g\n", e.r + off, e.c + off, single ? 9 : 17, e.re); }
        cx.label(zero_based ? "index-base=0" : "index-base=1");
    }
    // expected full matrix
    std::vector<Entry> expect = stored;
    if (sym) for (auto &e : stored) if (e.r != e.c) { Entry t = e; std::swap(t.r, t.c); expect.push_back(t); }
    cx.hash = fnv1a(c.d, c.consumed(), 0xC16ULL ^ ((uint64_t)Tr<T>::letter << 32));
    if (cx.dump) { cx.d(fmt("reader=%s n=%d stored entries=%zu symmetric=%d diagonal-missing=%d valfmt=%s", kind, n, nnz, (int)sym, (int)diag_missing, valfmt_str(vf).c_str())); cx.d("---- file ----"); cx.d(text); cx.d("---- end ----"); }
    cx.label(std::string("reader=") + kind); if (sym) cx.label(diag_missing ? "symmetric,diagonal-missing" : "symmetric,full-diagonal");
    if (nnz == 0 && fmtk >= 7) { cx.label("empty(not run)"); return; }
    // Known finding F08: symmetric expansion sizes its arrays as 2*nnz-n (every diagonal entry assumed stored)
    if (sym && diag_missing && cx.is_known("F08")) { cx.exclude("F08"); return; }

    vf_case_begin(cx.fill(0xA5));
    int m_out = -1, n_out = -1; int_t nnz_out = -1; T *val = nullptr; int_t *ri = nullptr, *cp = nullptr;
    std::vector<char> buf(text.begin(), text.end());
    FILE *fp = fmemopen(buf.data(), buf.size(), "r");
    VF_REQUIRE(cx, fp != nullptr, "harness", "fmemopen failed");
    FILE *saved_stdin = stdin;
    bool closes = (fmtk <= 4);    // the HB / RB readers fclose() the stream themselves
    bool use_stdin = (fmtk == 3 || fmtk == 4 || fmtk >= 7);
    if (use_stdin) stdin = fp;
    bool aborted = guarded([&] {
        if (fmtk <= 2) Tr<T>::readhb(fp, &m_out, &n_out, &nnz_out, &val, &ri, &cp);
        else if (fmtk <= 4) Tr<T>::readrb(&m_out, &n_out, &nnz_out, &val, &ri, &cp);
        else if (fmtk <= 6) Tr<T>::readMM(fp, &m_out, &n_out, &nnz_out, &val, &ri, &cp);
        else if (fmtk == 7) Tr<T>::readtriple(&m_out, &n_out, &nnz_out, &val, &ri, &cp);
        else { double *dv = nullptr; dreadtriple_noheader(&m_out, &n_out, &nnz_out, &dv, &ri, &cp); val = reinterpret_cast<T *>(dv); }
    }) != 0;
    stdin = saved_stdin;
    if (aborted) { if (!closes) fclose(fp); cx.fail("abort", fmt("%s reader gave up on a well-formed file: %s", kind, vf_abort_msg())); vf_purge(); return; }
    if (!closes) fclose(fp);
    bool ok = true;
    do {
        if (m_out != n || n_out != n) { cx.fail("dimensions", fmt("file describes a %dx%d matrix, reader returned %dx%d", n, n, m_out, n_out)); ok = false; break; }
        if ((size_t)nnz_out != expect.size()) { cx.fail("nnz", fmt("file holds %zu entries (%zu after symmetric expansion), reader returned nnz=%lld", nnz, expect.size(), (long long)nnz_out)); ok = false; break; }
        if (!region_ok(cp, sizeof(int_t) * (size_t)(n + 1)) || !region_ok(ri, sizeof(int_t) * (size_t)nnz_out) || !region_ok(val, sizeof(T) * (size_t)nnz_out)) { cx.fail("arrays", "returned arrays are shorter than the reported dimensions"); ok = false; break; }
        if (cp[0] != 0 || cp[n] != nnz_out) { cx.fail("colptr", fmt("colptr[0]=%lld colptr[n]=%lld nnz=%lld", (long long)cp[0], (long long)cp[n], (long long)nnz_out)); ok = false; break; }
        for (int j = 0; j < n && ok; ++j) if (cp[j] > cp[j + 1]) { cx.fail("colptr", fmt("colptr decreases at column %d", j)); ok = false; }
        if (!ok) break;
        std::vector<Entry> got;
        for (int j = 0; j < n && ok; ++j) for (int_t p = cp[j]; p < cp[j + 1]; ++p) {
            if (ri[p] < 0 || ri[p] >= n) { cx.fail("row-index", fmt("row index %lld in column %d out of range", (long long)ri[p], j)); ok = false; break; }
            Entry e; e.r = (int)ri[p]; e.c = j; auto w = widen<T>(val[p]); e.re = (double)std::real(w); e.im = cplx ? (double)std::imag(w) : 0; e.tol = 0; got.push_back(e);
        }
        if (!ok) break;
        auto key = [](const Entry &a, const Entry &b) { return a.c != b.c ? a.c < b.c : a.r < b.r; };
        std::sort(got.begin(), got.end(), key); std::sort(expect.begin(), expect.end(), key);
        for (size_t k = 0; k < expect.size() && ok; ++k) {
            const Entry &g = got[k], &x = expect[k];
            if (g.r != x.r || g.c != x.c) { cx.fail("pattern", fmt("entry %zu: reader has (%d,%d), file has (%d,%d)", k, g.r, g.c, x.r, x.c)); ok = false; break; }
            if (!(std::fabs(g.re - x.re) <= x.tol) || !(std::fabs(g.im - x.im) <= x.tol)) { cx.fail("value", fmt("entry (%d,%d): reader returned %.17g%+.17gi, file holds %.17g%+.17gi (allowed deviation %.3g)", g.r, g.c, g.re, g.im, x.re, x.im, x.tol)); ok = false; }
        }
    } while (0);
    if (val) vf_free(val); if (ri) vf_free(ri); if (cp) vf_free(cp);
    if (!ok) { vf_purge(); return; }
    if (!ledger_clean(cx, "after freeing the three returned arrays")) return;
    cx.nontrivial = n >= 2 && nnz >= 2 && (sym || vf.letter != 'E' || cx.labels.end() != std::find(cx.labels.begin(), cx.labels.end(), std::string("rhs-block")) || cx.labels.end() != std::find(cx.labels.begin(), cx.labels.end(), std::string("shuffled-entries")));
}

static void run(char type, Choice &c, Ctx &cx)
{
    switch (type) {
    case 's': run_T<float>(c, cx); break;
    case 'd': run_T<double>(c, cx); break;
    case 'c': run_T<cfloat>(c, cx); break;
    default: run_T<cdouble>(c, cx); break;
    }
}

const PropInfo vf_prop = {
    "C16",
    "a generated square matrix written as a Harwell-Boeing / Rutherford-Boeing file (integer formats (nIw), value formats (nEw.d)/(nDw.d)/(nFw.d) in either case, optional 1P prefix with E/D, fields per line with n*w<=80, "
    "RUA/RSA/CUA/CSA with lower triangle stored and diagonal entries present or absent, optional right-hand-side block), a Matrix Market coordinate file (real/complex, general/symmetric, comment lines, shuffled entries, 4..17 digits), "
    "or a triplet file with header (1-based, or 0-based with a zero in the first entry) or without header (double only); read back through ?readhb/?readrb/?readMM/?readtriple (stdin pointed at an in-memory stream); "
    "oracle (round trip): dimensions equal, colptr monotone 0..nnz, multiset of (row, col, value) equals the written one after symmetric expansion - exact for full-precision fields, within half a unit of the last printed digit otherwise; "
    "returned arrays addressable for the reported sizes, ledger clean; non-trivial = symmetric storage, D/F value format, right-hand-side block or shuffled coordinate entries; distinct = hash of consumed stream prefix and type",
    run, "sdcz"};

}  // namespace vf
