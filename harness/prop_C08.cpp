// C08 - a caller workspace is never overrun; shortage is reported.
#include "factorrun.hpp"
#include "expert.hpp"

namespace vf {

struct SweepRec { int state; long long info; unsigned long long digest; int flags; int glu_exp; };   // state: 0 not run, 1 running, 2 done
enum { FL_ABORT = 1, FL_CANARY = 2, FL_STRUCT = 4, FL_IDENT = 8, FL_LEAK = 16, FL_STACK = 32 };

// Run the factorization for every length in `lens` inside forked children; a crash or hang at one length is recorded
// and the sweep continues with the next length.
template <class T>
static void sweep(const FactorProblem<T> &P, const std::vector<long> &lens, const std::vector<int> &mis, int fill, unsigned char heapfill, unsigned char workfill,
                  std::vector<SweepRec> &recs, std::vector<int> &crashed, std::vector<int> &hung)
{
    size_t N = lens.size();
    SweepRec *shm = (SweepRec *)mmap(nullptr, sizeof(SweepRec) * (N + 1), PROT_READ | PROT_WRITE, MAP_SHARED | MAP_ANONYMOUS, -1, 0);
    recs.assign(N, SweepRec{0, 0, 0, 0, 0});
    if (shm == (SweepRec *)MAP_FAILED) return;
    std::memset(shm, 0, sizeof(SweepRec) * (N + 1));
    size_t next = 0;
    while (next < N) {
        pid_t pid = fork();
        if (pid < 0) break;
        if (pid == 0) {
            in_child() = true; signal(SIGALRM, SIG_DFL);
            for (size_t i = next; i < N; ++i) {
                shm[i].state = 1; alarm(10);
                StorageCfg cf; cf.fill = fill; cf.lwork = lens[i]; cf.misalign = mis[i]; cf.workfill = workfill;
                FactorOutcome o = factor_once<T>(P, cf, heapfill, true);
                shm[i].info = o.info; shm[i].digest = o.digest; shm[i].glu_exp = o.glu_exp;
                shm[i].flags = (o.aborted ? FL_ABORT : 0) | (!o.canary_ok ? FL_CANARY : 0) | (!o.structure_ok ? FL_STRUCT : 0) | (!o.identity_ok ? FL_IDENT : 0) | (o.leak ? FL_LEAK : 0) | (o.stack_overlap ? FL_STACK : 0);
                shm[i].state = 2;
            }
            _exit(0);
        }
        int st = 0; while (waitpid(pid, &st, 0) < 0 && errno == EINTR) {}
        size_t i = next; while (i < N && shm[i].state == 2) ++i;
        if (i >= N) { next = N; break; }
        // the child died while running length i
        if (WIFSIGNALED(st) && WTERMSIG(st) == SIGALRM) hung.push_back((int)i); else crashed.push_back((int)i);
        next = i + 1;
    }
    for (size_t i = 0; i < N; ++i) recs[i] = shm[i];
    munmap(shm, sizeof(SweepRec) * (N + 1));
}

template <class T> static void run_factor(Choice &c, Ctx &cx)
{
    GMat G;
    FactorProblem<T> P = gen_factor_problem<T>(c, cx, cx.tier, true, false, &G, 8);
    int n = P.n;
    static const int fills[] = {1, 2, 5, 1, 3, 2, 1, 30};
    int fill = fills[c.below(8)]; if (P.stress) fill = 1;
    bool exhaustive = c.chance(cx.tier > 0 ? 64 : 20);
    unsigned char workfill = c.u8();
    cx.hash = fnv1a(c.d, c.consumed(), 0xC08ULL ^ ((uint64_t)Tr<T>::letter << 32));
    if (cx.dump) { cx.d(fmt("%s n=%d fill=%d sweep=%s", P.ilu ? "gsitrf" : "gstrf", n, fill, exhaustive ? "every length" : "generated subset")); cx.d(opts_str(P.o, false)); if (P.ilu) cx.d(ilu_str(P.io)); cx.d(gmat_str(G, Tr<T>::is_complex)); }
    cx.label(P.ilu ? "routine=gsitrf" : "routine=gstrf");
    if (cx.is_known("F-SS") && maybe_exactly_singular(G)) { cx.exclude("F-SS"); return; }
    unsigned char heapfill = cx.fill(0xA5);
    StorageCfg sys; sys.fill = fill;
    FactorOutcome ref = factor_once<T>(P, sys, heapfill, true);
    if (ref.aborted) { cx.fail("abort", "library allocation run aborted: " + ref.abort_msg); return; }
    if (!ref.structure_ok || !ref.identity_ok) { cx.fail(ref.structure_ok ? ref.identity_oracle.c_str() : ref.structure_oracle.c_str(), "[library allocation] " + (ref.structure_ok ? ref.identity_msg : ref.structure_msg)); return; }
    if (ref.leak) { cx.fail("leak", "[library allocation] " + ref.leak_msg); return; }
    if (ref.info != 0 && !P.ilu) { cx.label("singular-return"); return; }
    if (ref.degenerate) { cx.skip("overflow-degenerate"); return; }
    StorageCfg q = sys; q.lwork = -1; FactorOutcome qo = factor_once<T>(P, q, heapfill, false);
    long est = (long)qo.info - n;
    if (qo.aborted || est <= 0) { cx.fail("size-query", fmt("size query through the factor routine returned info=%lld (n=%d)%s", qo.info, n, qo.aborted ? " after ABORT" : "")); return; }
    // The size-query estimate and mem_usage.total_needed leave out the part of the dense work array that depends on the
    // supernode / row-block tuning (NUM_TEMPV); with the stock tuning that part alone is 64 KB, so lengths around the
    // estimate would never succeed.  W is the larger of the reported figures and the measured factors plus the real work arrays.
    long panel = sp_ienv(1), maxsuper = std::max(sp_ienv(3), sp_ienv(7)), rowblk = sp_ienv(4);
    long tail_true = (2 * panel + 2 + 3) * (long)P.m * (long)sizeof(int) + ((long)P.m * panel + std::max<long>(P.m, (maxsuper + rowblk) * panel)) * (long)sizeof(T) + 16;
    long W = std::max<long>(std::max<long>(est, (long)ref.total_needed), (long)ref.for_lu + tail_true) + 64;
    if (exhaustive && W > 6000) exhaustive = false;   // stock tuning: the work arrays alone take 64 KB; every length would be ~70000 factorizations
    cx.label(exhaustive ? "sweep=exhaustive" : "sweep=subset");
    // ---- fault injection under library allocation: fail the k-th growth request ----------------------
    long nexp = ref.expand_allocs;     // 4 initial + growth requests
    int inj_k2 = 0;
    for (long kf = 1; kf <= nexp; ++kf) {
        FactorOutcome fo = factor_once<T>(P, sys, heapfill, false, kf);
        if (fo.aborted) { cx.fail("fault-abort", fmt("allocation failure at factor-growth request %ld of %ld: the library called ABORT (%s) instead of returning info > n", kf, nexp, fo.abort_msg.c_str())); return; }
        if (!(fo.info > n)) {
            // the initial estimate is halved and retried when one of the first four requests fails: success is legitimate then
            if (kf <= 4 && fo.info == ref.info) { cx.label("fault:initial-request-retried"); continue; }
            cx.fail("fault-info", fmt("allocation failure at factor-growth request %ld of %ld was not reported: info=%lld (n=%d)", kf, nexp, fo.info, n)); return;
        }
        if (fo.leak) { if (cx.is_known("F16")) cx.exclude("F16"); else { cx.fail("leak", fmt("after an injected failure at growth request %ld: %s", kf, fo.leak_msg.c_str())); return; } }
        if (kf >= 2) ++inj_k2;
    }
    // ---- workspace sweep ---------------------------------------------------------------------------------
    std::vector<long> lens; std::vector<int> mis;
    if (exhaustive) { for (long l = 1; l <= W + 64; ++l) { lens.push_back(l); mis.push_back(pick_misalign((l & 8) != 0, cx)); } }
    else {
        int cnt = 16 + (int)c.below(16);
        for (int i = 0; i < cnt; ++i) {
            unsigned k = c.below(6); long l;
            switch (k) { case 0: l = 1 + (long)c.below(64); break; case 1: l = W - (long)c.below(128); break; case 2: l = W + (long)c.below(64); break; case 3: l = 2 * W + (long)c.below(600); break; default: l = 1 + (long)(c.u16() % (unsigned)(W + 64)); }
            if (l < 1) l = 1;
            lens.push_back(l); mis.push_back(pick_misalign(c.chance(128), cx));
        }
    }
    // one generous length (4W + 4096): a workspace of sufficient size must give what library allocation gives (C07's "any sufficient size")
    size_t generous = lens.size(); lens.push_back(4 * W + 4096); mis.push_back(pick_misalign(c.chance(128), cx));
    std::vector<SweepRec> recs; std::vector<int> crashed, hung;
    sweep<T>(P, lens, mis, fill, heapfill, workfill, recs, crashed, hung);
    int ok_runs = 0, short_after_growth = 0, ok_with_growth = 0, shortage = 0;
    auto where = [&](size_t i) { return fmt("lwork=%ld (workspace base %% 8 = %d, fill=%d)", lens[i], mis[i], fill); };
    if (!crashed.empty() || !hung.empty()) {
        bool open = cx.is_known("F04");
        std::string list; for (int i : crashed) list += fmt(" crash@%ld", lens[i]); for (int i : hung) list += fmt(" hang@%ld", lens[i]);
        if (open) { cx.exclude("F04"); cx.label("F04:crash-or-hang"); }
        else { cx.fail(!hung.empty() ? "hang" : "crash", fmt("caller workspace: %zu length(s) crashed and %zu did not return within 10 s:%s", crashed.size(), hung.size(), list.substr(0, 300).c_str())); return; }
    }
    for (size_t i = 0; i < recs.size(); ++i) {
        const SweepRec &r = recs[i];
        if (r.state != 2) continue;
        if (r.flags & FL_ABORT) { cx.fail("abort", where(i) + ": the library called ABORT instead of returning info > n"); return; }
        if (r.flags & FL_STACK) { cx.fail("workspace-stack-overlap", where(i) + ": the factor arrays growing from the head of work[] ran into the work arrays at its tail (GlobalLU_t::stack.top1 + work arrays > size at return)"); return; }
        if (r.flags & FL_CANARY) { cx.fail("workspace-overrun", where(i) + ": a byte outside [work, work+lwork) was written"); return; }
        if (r.info > n && i == generous && !(ref.info > n)) { cx.fail("shortage-in-generous-workspace", where(i) + fmt(": info=%lld (shortage) although the estimate is %ld, the measured requirement %ld and library allocation succeeds", r.info, est, (long)ref.for_lu + tail_true)); return; }
        if (r.info > n) { ++shortage; if (r.glu_exp >= 1) ++short_after_growth; if ((r.flags & FL_LEAK)) { if (cx.is_known("F16")) cx.exclude("F16"); else { cx.fail("leak", where(i) + fmt(": info=%lld (shortage) but library allocations were left behind", r.info)); return; } } continue; }
        if (r.flags & FL_LEAK) { cx.fail("leak", where(i) + ": allocations left behind after a successful factorization"); return; }
        if (r.info != ref.info) { cx.fail("info-differs", where(i) + fmt(": info=%lld, library allocation gives %lld", r.info, ref.info)); return; }
        if (r.flags & (FL_STRUCT | FL_IDENT)) { cx.fail("damaged-factors", where(i) + ": the factors returned in the caller's workspace fail the C02/C03 checks"); return; }
        if (r.info == 0 && r.digest != ref.digest) { cx.fail("factors-differ", where(i) + ": permutations/factors are not bit-identical to those obtained with library allocation"); return; }
        ++ok_runs; if (r.glu_exp >= 1) ++ok_with_growth;
    }
    if (cx.dump && !exhaustive) { std::string l = fmt("W=%ld est=%ld measured=%ld; per length:", W, est, (long)ref.total_needed); for (size_t i = 0; i < recs.size(); ++i) l += fmt(" %ld%s->%lld", lens[i], mis[i] ? "+4" : "", recs[i].state == 2 ? recs[i].info : -999LL); cx.d(l); }
    cx.label(fmt("lengths=%zu", std::min<size_t>(lens.size() / 100 * 100, 2000)));
    if (short_after_growth) cx.label("shortage-after-in-buffer-growth"); if (ok_with_growth) cx.label("success-with-in-buffer-growth"); if (inj_k2) cx.label("injected-failure-k>=2");
    if (ok_runs == 0) cx.label("no-length-succeeded");
    cx.nontrivial = short_after_growth > 0 || ok_with_growth > 0 || inj_k2 > 0;
}

// ---- size queries through the expert drivers -----------------------------------------------------------
template <class T> static void run_query(Choice &c, Ctx &cx)
{
    typedef typename Tr<T>::R R;
    const bool cplx = Tr<T>::is_complex, single = sizeof(R) == 4;
    int n = gen_size(c, cx.tier, 10, 30);
    std::string family;
    auto pat = gen_pattern(c, n, n, PAT_NONSING, family);
    GMat G = gen_values(c, n, n, pat, cplx, single, family);
    Opts o = gen_opts(c, n, single, true, true);
    bool ilu = c.chance(100); IluOpts io; if (ilu) { io = gen_ilu_opts(c); route_ilu(io, cx); }
    int nrhs = (int)c.below(3);
    Expert<T> e; e.init(n, nrhs, n, n); e.ilu = ilu;
    e.S = to_comp<T>(G, o.nr, o.shuffle_rows ? &c : nullptr);
    e.B = gen_rhs<T>(c, n, nrhs, n, cplx);
    cx.hash = fnv1a(c.d, c.consumed(), 0xC08BULL ^ ((uint64_t)Tr<T>::letter << 32));
    if (cx.dump) { cx.d(fmt("size query (lwork=-1) through %s n=%d nrhs=%d", ilu ? "gsisx" : "gssvx", n, nrhs)); cx.d(opts_str(o, true)); if (ilu) cx.d(ilu_str(io)); cx.d(gmat_str(G, cplx)); }
    cx.label(ilu ? "routine=gsisx(query)" : "routine=gssvx(query)"); cx.label(o.equil ? "Equil=YES" : "Equil=NO");
    if (cplx && o.nr && o.trans == CONJ && cx.is_known("F07")) o.trans = TRANS;
    vf_case_begin(cx.fill(0xA5));
    apply_tuning(o.tune);
    if (ilu) ilu_set_default_options(&e.so);
    apply_opts(o, e.so); if (ilu) { apply_ilu(io, e.so); e.so.IterRefine = NOREFINE; }
    if (o.colperm == MY_PERMC) e.perm_c = o.my_perm_c;
    std::vector<unsigned char> wk(64, 0x3C); e.work = wk.data() + 8; e.lwork = -1;
    e.bind();
    // Known finding F03: the size query equilibrates (and, for ?gsisx with MC64, row-permutes) the caller's A in place
    bool f03_class = (o.equil || (ilu && io.rowperm == LargeDiag_MC64));
    if (f03_class && cx.is_known("F03")) { cx.exclude("F03"); e.so.Equil = NO; if (ilu) e.so.RowPerm = NOROWPERM; cx.label("F03-class(remapped)"); }
    std::vector<T> val0 = e.S.val, B0 = e.B, X0 = e.X; std::vector<int_t> idx0 = e.S.idx, ptr0 = e.S.ptr; std::vector<int> pr0 = e.perm_r, pc0 = e.perm_c; std::vector<unsigned char> wk0 = wk;
    SuperMatrix L0 = e.L, U0 = e.U;
    if (e.call()) { cx.fail("abort", fmt("size query: library called ABORT: %s", vf_abort_msg())); vf_purge(); return; }
    bool ok = true;
    do {
        long long info = e.info;
        if (!(info > n)) { cx.fail("query-info", fmt("size query returned info=%lld, expected n + estimate (n=%d)", info, n)); ok = false; break; }
        double est = (double)(info - n);
        if (!(std::fabs((double)e.mu.total_needed - est) <= 1e-6 * est + 1)) { cx.fail("query-estimate", fmt("mem_usage.total_needed=%.9g but info-n=%.9g", (double)e.mu.total_needed, est)); ok = false; break; }
        if (!bytes_equal(e.S.val, val0)) { cx.fail("query-modified-A", "the size query changed the values of A"); ok = false; break; }
        if (!bytes_equal(e.S.idx, idx0) || !bytes_equal(e.S.ptr, ptr0)) { cx.fail("query-modified-A", "the size query changed the index arrays of A"); ok = false; break; }
        if (!bytes_equal(e.B, B0) || !bytes_equal(e.X, X0)) { cx.fail("query-modified-rhs", "the size query changed B or X"); ok = false; break; }
        if (!bytes_equal(e.perm_r, pr0)) { cx.fail("query-modified-perm_r", "the size query changed perm_r"); ok = false; break; }
        // perm_c is documented as input/output even with MY_PERMC ("may be overwritten by the product of the input perm_c and a
        // permutation that postorders the elimination tree"), so it is treated as an output here: only bijectivity is required.
        if (o.colperm == MY_PERMC && !is_perm(e.perm_c.data(), n)) { cx.fail("query-damaged-perm_c", "the size query left a caller-supplied perm_c that is no longer a permutation"); ok = false; break; }
        if (std::memcmp(&e.L, &L0, sizeof L0) != 0 || std::memcmp(&e.U, &U0, sizeof U0) != 0) { cx.fail("query-modified-LU", "the size query changed the L or U objects"); ok = false; break; }
        if (wk != wk0) { cx.fail("query-modified-work", "the size query wrote into the workspace pointer it was given"); ok = false; break; }
    } while (0);
    e.lu_live = false; e.teardown();
    if (!ok) { vf_purge(); return; }
    if (vf_live_blocks() && cx.is_known("F16")) { cx.exclude("F16"); vf_purge(); }
    else if (!ledger_clean(cx, "after a size query")) return;
    cx.nontrivial = true;
}

// ---- the same workspace used again: fresh factorization, then re-factorizations that re-use it ------------------------
// ?gssvx with a caller workspace of a generated length (from far too small to generous, 8-byte aligned or offset by 4), then
// up to three more calls with other values and Fact = SamePattern_SameRowPerm (factors re-used in place inside the same
// workspace) or FACTORED (solve only).  After every call: guard zones intact; info > n + 1 (shortage) or a result whose
// factors satisfy C02/C03 for the matrix just factored.
template <class T> static void run_reuse(Choice &c, Ctx &cx)
{
    typedef typename Tr<T>::R R; typedef typename Wide<T>::W W;
    const bool cplx = Tr<T>::is_complex, single = sizeof(R) == 4;
    int n = gen_size(c, cx.tier, 10, 24);
    std::string family;
    auto pat = gen_pattern(c, n, n, PAT_NONSING, family);
    GMat G = gen_values(c, n, n, pat, cplx, single, family);
    Opts o = gen_opts(c, n, single, true, true);
    o.refine = NOREFINE;
    int nrhs = (int)c.below(2);
    unsigned char workfill = c.u8();
    cx.hash = fnv1a(c.d, c.consumed(), 0xC08CULL ^ ((uint64_t)Tr<T>::letter << 32));
    if (cx.is_known("F-SS") && maybe_exactly_singular(G)) { cx.exclude("F-SS"); cx.label("exactly-singular(excluded)"); return; }
    if (cplx && o.nr && o.trans == CONJ && cx.is_known("F07")) o.trans = TRANS;
    // the estimate for this problem comes from a size query; the generated length is a fraction / multiple of it
    long est = 0;
    {
        vf_case_begin(cx.fill(0xA5)); apply_tuning(o.tune);
        Expert<T> q; q.init(n, 0, n, n); q.S = to_comp<T>(G, o.nr, nullptr); q.B.assign(1, sentinel_value<T>()); apply_opts(o, q.so); q.so.Equil = NO;
        if (o.colperm == MY_PERMC) q.perm_c = o.my_perm_c;
        q.lwork = -1; q.bind();
        if (q.call()) { cx.fail("abort", fmt("size query: library called ABORT: %s", vf_abort_msg())); vf_purge(); return; }
        est = (long)q.info - n; q.lu_live = false; q.teardown(); vf_purge();
        if (est <= 0) { cx.fail("query-info", fmt("size query returned info=%lld", (long long)q.info)); return; }
    }
    { long panel = sp_ienv(1), maxsuper = std::max(sp_ienv(3), sp_ienv(7)), rowblk = sp_ienv(4); est += std::max<long>(0, (maxsuper + rowblk) * panel - n) * (long)sizeof(T); }   // the tuning-dependent part of the dense work array (see run_factor)
    static const int num[] = {2, 5, 7, 8, 9, 10, 12, 12, 16, 16, 24, 32};
    long lwork = est * num[c.below(12)] / 8 + (long)c.below(64);
    int mis = pick_misalign(c.chance(128), cx);
    if (cx.dump) { cx.d(fmt("workspace re-use through gssvx n=%d nrhs=%d estimate=%ld lwork=%ld base%%8=%d", n, nrhs, est, lwork, mis)); cx.d(opts_str(o, true)); cx.d(gmat_str(G, cplx)); }
    cx.label("routine=gssvx(workspace re-use)"); cx.label(mis ? "base%8=4" : "base%8=0");
    vf_case_begin(cx.fill(0xA5)); apply_tuning(o.tune);
    GuardedWork gw; gw.make(lwork, mis, workfill);
    Expert<T> e; e.init(n, nrhs, n, n);
    e.S = to_comp<T>(G, o.nr, o.shuffle_rows ? &c : nullptr);
    apply_opts(o, e.so); if (o.colperm == MY_PERMC) e.perm_c = o.my_perm_c;
    e.work = gw.work; e.lwork = (int_t)lwork;
    int refactored = 0, shortage_at = -1; bool ok = true;
    int steps = 1 + (int)c.below(4);
    for (int st = 0; st < steps && ok; ++st) {
        bool resolve = st > 0 && c.chance(60);
        if (st > 0 && !resolve) {   // other values on the same pattern (kept well away from exact singularity by the generator's families)
            GMat G2 = G; ValGen g; g.kind = c.chance(128) ? 1 : 0; g.cmode = 0; g.expK = 0; g.explicit_zero = false;
            for (auto &col : G2.col) for (auto &en : col) en.second = g.value(c, cplx);
            if (cx.is_known("F-SS") && maybe_exactly_singular(G2)) { cx.exclude("F-SS"); break; }
            G = G2;
            Comp<T> fresh = to_comp<T>(G, o.nr, nullptr);
            std::map<std::pair<int_t, int_t>, T> mv; for (int kk = 0; kk < n; ++kk) for (int_t p = fresh.ptr[kk]; p < fresh.ptr[kk + 1]; ++p) mv[{(int_t)kk, fresh.idx[p]}] = fresh.val[p];
            for (int kk = 0; kk < n; ++kk) for (int_t p = e.S.ptr[kk]; p < e.S.ptr[kk + 1]; ++p) e.S.val[p] = mv[{(int_t)kk, e.S.idx[p]}];
        }
        e.so.Fact = st == 0 ? DOFACT : (resolve ? FACTORED : SamePattern_SameRowPerm);
        e.nrhs = resolve && nrhs == 0 ? 1 : nrhs;
        e.B = gen_rhs<T>(c, n, e.nrhs, n, cplx); e.X.assign((size_t)n * e.nrhs + 1, sentinel_value<T>());
        e.ferr.assign(std::max(e.nrhs, 1), (R)-77); e.berr.assign(std::max(e.nrhs, 1), (R)-77);
        e.bind();
        std::string tag = fmt("call %d (%s)", st, st == 0 ? "DOFACT" : (resolve ? "FACTORED" : "SamePattern_SameRowPerm"));
        if (cx.dump) cx.d(tag);
        bool ab = e.call();
        std::string gm;
        if (!gw.verify(gm)) { cx.fail("workspace-overrun", fmt("%s, lwork=%ld base%%8=%d: %s", tag.c_str(), lwork, mis, gm.c_str())); ok = false; break; }
        if (ab) { cx.fail("abort", tag + ": library called ABORT: " + vf_abort_msg()); ok = false; break; }
        long long info = e.info;
        if (info < 0) { cx.fail("info", tag + fmt(": valid call returned info=%lld", info)); ok = false; break; }
        // shortage: nothing more can be asked of this workspace.  The L and U objects of an earlier successful call are still
        // the caller's to destroy (their Store records are library allocations; the arrays live in work[]).
        if (info > n + 1) { shortage_at = st; if (st == 0) e.lu_live = false; else e.lu_live = true; break; }
        if (info >= 1 && info <= n) { cx.label("singular-return"); break; }
        if (!resolve) {
            Dense<W> AA = factored_matrix(e); LUDecoded<T> dec;
            if (!check_lu<T>(cx, AA, e.perm_r.data(), e.perm_c.data(), &e.L, &e.U, o.u, st == 0, false, dec)) { cx.msg = tag + fmt(", lwork=%ld base%%8=%d: ", lwork, mis) + cx.msg; ok = false; break; }
            if (dec.degenerate) { cx.skip("overflow-degenerate"); break; }
            // the factors handed back live inside the workspace
            const SCformat *Ls = (const SCformat *)e.L.Store; const NCformat *Us = (const NCformat *)e.U.Store;
            const unsigned char *w0 = gw.work, *w1 = gw.work + lwork;
            auto inside = [&](const void *p) { return (const unsigned char *)p >= w0 && (const unsigned char *)p < w1; };
            if (!inside(Ls->nzval) || !inside(Ls->rowind) || !inside(Us->nzval) || !inside(Us->rowind)) { cx.fail("factors-outside-workspace", tag + ": lwork > 0 but a factor array does not lie inside work[]"); ok = false; break; }
            if (st > 0) ++refactored;
        }
    }
    if (ok || e.aborted) { /* fallthrough to cleanup */ }
    if (!e.aborted) { e.teardown(); } else { e.lu_live = false; }
    gw.release();
    if (!ok) { vf_purge(); return; }
    if (cx.skipped) { vf_purge(); return; }
    if (!ledger_clean(cx, "after the workspace history")) return;
    if (shortage_at >= 0) cx.label(fmt("shortage-at-call-%d", shortage_at));
    if (refactored) cx.label("refactored-in-workspace");
    cx.nontrivial = refactored > 0 || shortage_at >= 0;
}

// (first byte >= 186: query, as before the re-use mode existed, so that saved replays keep their meaning; 146..185: re-use)
template <class T> static void run_T(Choice &c, Ctx &cx) { unsigned k = c.u8(); if (k >= 186) run_query<T>(c, cx); else if (k >= 146) run_reuse<T>(c, cx); else run_factor<T>(c, cx); }

static void run(char type, Choice &c, Ctx &cx)
{
    switch (type) {
    case 's': run_T<float>(c, cx); break;
    case 'd': run_T<double>(c, cx); break;
    case 'c': run_T<cfloat>(c, cx); break;
    default: run_T<cdouble>(c, cx); break;
    }
}

const PropInfo vf_prop = {
    "C08",
    "(1) a generated problem (n <= 8, ?gstrf or ?gsitrf, fill estimate in {1,2,3,5,30}) is first factored with library allocation; then EVERY workspace length 1..W+128 (W = max(size-query estimate, measured need)+64) for a sample of problems and 16..31 generated lengths "
    "(tiny, around W, 2W) for the rest, with 8-byte aligned and 4-byte offset bases and arbitrary initial contents, each length in a forked child that publishes the length it is running so that a crash or a >10 s stall is attributed to it; "
    "every allocation-failure position among the factor-growth requests is injected under library allocation; (2) size queries (lwork=-1) through ?gssvx / ?gsisx; "
    "(3) one guarded workspace (length = 1/4 .. 4x the estimated requirement, base 0 or 4 mod 8) used for a fresh ?gssvx factorization and then re-used by up to three calls with SamePattern_SameRowPerm / FACTORED; "
    "oracle: guard zones around [work, work+lwork) poisoned for ASan and canary-filled; outcome per length is info > n, or the same info and bit-identical factors as library allocation with C02/C03 intact; never ABORT, signal or stall; "
    "injected failures give info > n; a size query returns info = n + estimate = n + mem_usage.total_needed and leaves A, B, X, L, U, perm_r and the workspace bytes untouched (perm_c, etree, R, C, equed are documented outputs); "
    "non-trivial = shortage or success after >= 1 in-buffer expansion, an injected failure at k >= 2, or a size query; distinct = hash of consumed stream prefix and type",
    run, "sdcz"};

}  // namespace vf
