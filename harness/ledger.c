/* Allocation ledger, fault injection and ABORT capture.  See ledger.h. */
#include "ledger.h"
#include <pthread.h>
#include <setjmp.h>
#include <stdio.h>
#include <stdlib.h>
#include <string.h>
#include <stdint.h>
#include <unistd.h>

#define TABLE_BITS 16
#define TABLE_SIZE (1u << TABLE_BITS)

typedef struct {
    void *p;            /* NULL = empty, (void*)1 = tombstone */
    size_t size;
    const char *site;
    int tid;
} slot_t;

static slot_t table[TABLE_SIZE];
static long table_used = 0;
static pthread_mutex_t mu = PTHREAD_MUTEX_INITIALIZER;
static int next_tid = 1;

/* The ledger's lock must not order the threads of the code under test for ThreadSanitizer: a happens-before edge through
   this mutex would hide every race between two library calls that each allocate in between (which is all of them).  In a
   TSan build the lock, and the table it protects, are therefore invisible to the race detector. */
#if defined(__has_feature)
#if __has_feature(thread_sanitizer)
void AnnotateIgnoreSyncBegin(const char *f, int l); void AnnotateIgnoreSyncEnd(const char *f, int l);
void AnnotateIgnoreReadsBegin(const char *f, int l); void AnnotateIgnoreReadsEnd(const char *f, int l);
void AnnotateIgnoreWritesBegin(const char *f, int l); void AnnotateIgnoreWritesEnd(const char *f, int l);
#define LEDGER_LOCK()   do { AnnotateIgnoreSyncBegin(__FILE__, __LINE__); AnnotateIgnoreReadsBegin(__FILE__, __LINE__); AnnotateIgnoreWritesBegin(__FILE__, __LINE__); pthread_mutex_lock(&mu); } while (0)
#define LEDGER_UNLOCK() do { pthread_mutex_unlock(&mu); AnnotateIgnoreWritesEnd(__FILE__, __LINE__); AnnotateIgnoreReadsEnd(__FILE__, __LINE__); AnnotateIgnoreSyncEnd(__FILE__, __LINE__); } while (0)
#endif
#endif
#ifndef LEDGER_LOCK
#define LEDGER_LOCK()   pthread_mutex_lock(&mu)
#define LEDGER_UNLOCK() pthread_mutex_unlock(&mu)
#endif

typedef struct {
    int tid;
    unsigned char fill;
    vf_stats_t st;
    char fault_site[32];
    long fault_k;
    int fault_sticky;
    long fault_seen;
    jmp_buf *jb;
    char abort_msg[320];
} tctx_t;

static __thread tctx_t T;

static tctx_t *ctx(void)
{
    if (T.tid == 0) {
        LEDGER_LOCK();
        T.tid = next_tid++;
        LEDGER_UNLOCK();
        T.fill = 0xA5;
    }
    return &T;
}

static unsigned hashp(const void *p)
{
    uint64_t x = (uint64_t)(uintptr_t)p;
    x ^= x >> 33; x *= 0xff51afd7ed558ccdULL; x ^= x >> 33;
    return (unsigned)x & (TABLE_SIZE - 1);
}

static slot_t *find(const void *p)
{
    unsigned h = hashp(p);
    for (unsigned i = 0; i < TABLE_SIZE; ++i) {
        slot_t *s = &table[(h + i) & (TABLE_SIZE - 1)];
        if (s->p == p) return s;
        if (s->p == NULL) return NULL;
    }
    return NULL;
}

static void insert(void *p, size_t size, const char *site, int tid)
{
    unsigned h = hashp(p);
    if (table_used > (long)(TABLE_SIZE / 2)) {
        /* drop tombstones: rebuild the table from the live entries */
        static slot_t tmp[TABLE_SIZE / 2 + 1];
        long nl = 0;
        for (unsigned i = 0; i < TABLE_SIZE; ++i)
            if (table[i].p && table[i].p != (void *)1) {
                if (nl >= (long)(TABLE_SIZE / 4)) { fprintf(stderr, "vf ledger: table full\n"); abort(); }
                tmp[nl++] = table[i];
            }
        memset(table, 0, sizeof table);
        table_used = 0;
        for (long i = 0; i < nl; ++i) {
            unsigned hh = hashp(tmp[i].p);
            for (unsigned j = 0; j < TABLE_SIZE; ++j) {
                slot_t *s = &table[(hh + j) & (TABLE_SIZE - 1)];
                if (s->p == NULL) { *s = tmp[i]; ++table_used; break; }
            }
        }
    }
    for (unsigned i = 0; i < TABLE_SIZE; ++i) {
        slot_t *s = &table[(h + i) & (TABLE_SIZE - 1)];
        if (s->p == NULL || s->p == (void *)1) {
            if (s->p == NULL) ++table_used;
            s->p = p; s->size = size; s->site = site; s->tid = tid;
            return;
        }
    }
}

void vf_case_begin(unsigned char fill)
{
    tctx_t *c = ctx();
    c->fill = fill;
    memset(&c->st, 0, sizeof c->st);
    c->fault_k = 0; c->fault_seen = 0; c->fault_sticky = 0; c->fault_site[0] = 0;
    c->abort_msg[0] = 0;
}

void vf_set_fault(const char *site, long k, int sticky)
{
    tctx_t *c = ctx();
    c->fault_k = k; c->fault_sticky = sticky; c->fault_seen = 0;
    c->fault_site[0] = 0;
    if (site) { strncpy(c->fault_site, site, sizeof c->fault_site - 1); c->fault_site[sizeof c->fault_site - 1] = 0; }
}

void *vf_malloc_at(size_t size, const char *func)
{
    tctx_t *c = ctx();
    int is_expand = func && strstr(func, "expand") != NULL;
    if (c->fault_k > 0 && (c->fault_site[0] == 0 || (func && strstr(func, c->fault_site)))) {
        c->fault_seen++;
        if (c->fault_seen == c->fault_k || (c->fault_sticky && c->fault_seen > c->fault_k)) {
            c->st.faults_fired++;
            if (is_expand) c->st.expand_allocs++;
            return NULL;
        }
    }
    void *p = malloc(size ? size : 1);
    if (!p) return NULL;
    memset(p, c->fill, size);
    LEDGER_LOCK();
    insert(p, size, func, c->tid);
    LEDGER_UNLOCK();
    c->st.allocs++;
    if (is_expand) c->st.expand_allocs++;
    c->st.live_bytes += size;
    if (c->st.live_bytes > c->st.peak_bytes) c->st.peak_bytes = c->st.live_bytes;
    return p;
}

void *vf_malloc(size_t size) { return vf_malloc_at(size, "harness"); }

void vf_free(void *p)
{
    tctx_t *c = ctx();
    if (!p) return;              /* free(NULL) is what the production superlu_free does */
    LEDGER_LOCK();
    slot_t *s = find(p);
    size_t size = 0;
    if (s) { size = s->size; s->p = (void *)1; }
    LEDGER_UNLOCK();
    if (!s) { c->st.bad_frees++; return; }
    c->st.frees++;
    if (c->st.live_bytes >= size) c->st.live_bytes -= size; else c->st.live_bytes = 0;
    memset(p, 0xDD, size);
    free(p);
}

long vf_live_blocks(void)
{
    tctx_t *c = ctx();
    long n = 0;
    LEDGER_LOCK();
    for (unsigned i = 0; i < TABLE_SIZE; ++i)
        if (table[i].p && table[i].p != (void *)1 && table[i].tid == c->tid) ++n;
    LEDGER_UNLOCK();
    return n;
}

void vf_describe_live(char *buf, size_t buflen, int max)
{
    tctx_t *c = ctx();
    size_t pos = 0; int n = 0;
    if (buflen) buf[0] = 0;
    LEDGER_LOCK();
    for (unsigned i = 0; i < TABLE_SIZE && n < max; ++i)
        if (table[i].p && table[i].p != (void *)1 && table[i].tid == c->tid) {
            int w = snprintf(buf + pos, buflen - pos, "%s%s:%zu", n ? ", " : "",
                             table[i].site ? table[i].site : "?", table[i].size);
            if (w < 0 || (size_t)w >= buflen - pos) break;
            pos += (size_t)w; ++n;
        }
    LEDGER_UNLOCK();
}

long vf_purge(void)
{
    tctx_t *c = ctx();
    long n = 0;
    LEDGER_LOCK();
    for (unsigned i = 0; i < TABLE_SIZE; ++i)
        if (table[i].p && table[i].p != (void *)1 && table[i].tid == c->tid) {
            free(table[i].p);
            table[i].p = (void *)1;
            ++n;
        }
    LEDGER_UNLOCK();
    c->st.live_bytes = 0;
    return n;
}

const vf_stats_t *vf_stats(void) { return &ctx()->st; }

size_t vf_block_size(const void *p)
{
    size_t r = (size_t)-1;
    LEDGER_LOCK();
    slot_t *s = find(p);
    if (s) r = s->size;
    LEDGER_UNLOCK();
    return r;
}

void vf_abort(const char *msg)
{
    tctx_t *c = ctx();
    c->st.aborts++;
    strncpy(c->abort_msg, msg ? msg : "", sizeof c->abort_msg - 1);
    c->abort_msg[sizeof c->abort_msg - 1] = 0;
    if (c->jb) longjmp(*c->jb, 1);
    fprintf(stderr, "vf: uncaptured ABORT: %s\n", c->abort_msg);
    abort();
}

void vf_exit(int code)
{
    char buf[64];
    snprintf(buf, sizeof buf, "library called exit(%d)", code);
    tctx_t *c = ctx();
    if (c->jb) vf_abort(buf);
    fprintf(stderr, "vf: %s outside a guarded call\n", buf);
    _exit(code & 0xff);
}

int vf_try(void (*fn)(void *), void *arg)
{
    tctx_t *c = ctx();
    jmp_buf jb;
    jmp_buf *saved = c->jb;
    c->jb = &jb;
    if (setjmp(jb) == 0) {
        fn(arg);
        c->jb = saved;
        return 0;
    }
    c->jb = saved;
    return 1;
}

const char *vf_abort_msg(void) { return ctx()->abort_msg; }
