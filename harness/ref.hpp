// Reference arithmetic (long double), factor decoding, structure predicate (C03),
// and the shared identity / residual oracles.  DESIGN.md section 4.
#pragma once
#include "core.hpp"
#include "gen.hpp"
#include <complex>
#include <cmath>
#include <limits>

#if defined(__has_feature)
#if __has_feature(address_sanitizer)
#define VF_HAVE_ASAN 1
extern "C" void *__asan_region_is_poisoned(void *beg, size_t size);
#endif
#endif

namespace vf {

typedef long double LD;
typedef std::complex<long double> CLD;
template <class T> struct Wide { typedef LD W; };
template <> struct Wide<cfloat> { typedef CLD W; };
template <> struct Wide<cdouble> { typedef CLD W; };

inline LD abs1(LD x) { return std::fabs(x); }
inline LD abs1(const CLD &x) { return std::fabs(x.real()) + std::fabs(x.imag()); }   // the library's complex magnitude
inline LD absm(LD x) { return std::fabs(x); }
inline LD absm(const CLD &x) { return std::abs(x); }
inline bool finite_w(LD x) { return std::isfinite(x); }
inline bool finite_w(const CLD &x) { return std::isfinite(x.real()) && std::isfinite(x.imag()); }
inline LD conj_w(LD x) { return x; }
inline CLD conj_w(const CLD &x) { return std::conj(x); }
template <class T> inline typename Wide<T>::W widen(T v);
template <> inline LD widen<float>(float v) { return v; }
template <> inline LD widen<double>(double v) { return v; }
template <> inline CLD widen<cfloat>(cfloat v) { return CLD(v.real(), v.imag()); }
template <> inline CLD widen<cdouble>(cdouble v) { return CLD(v.real(), v.imag()); }
inline bool is_zero(float v) { return v == 0; }
inline bool is_zero(double v) { return v == 0; }
inline bool is_zero(cfloat v) { return v.real() == 0 && v.imag() == 0; }
inline bool is_zero(cdouble v) { return v.real() == 0 && v.imag() == 0; }
inline bool finite_t(float v) { return std::isfinite(v); }
inline bool finite_t(double v) { return std::isfinite(v); }
inline bool finite_t(cfloat v) { return std::isfinite(v.real()) && std::isfinite(v.imag()); }
inline bool finite_t(cdouble v) { return std::isfinite(v.real()) && std::isfinite(v.imag()); }
inline std::string w_str(LD x) { return fmt("%.6Lg", x); }
inline std::string w_str(const CLD &x) { return fmt("(%.6Lg%+.6Lgi)", x.real(), x.imag()); }

template <class W> struct Dense {
    int m = 0, n = 0;
    std::vector<W> a;
    Dense() {}
    Dense(int m_, int n_) : m(m_), n(n_), a((size_t)m_ * n_, W(0)) {}
    W &operator()(int i, int j) { return a[(size_t)j * m + i]; }
    const W &operator()(int i, int j) const { return a[(size_t)j * m + i]; }
};

template <class T> inline Dense<typename Wide<T>::W> dense_of(const Comp<T> &S)
{
    typedef typename Wide<T>::W W;
    Dense<W> D(S.m, S.n);
    int outer = S.byrow ? S.m : S.n;
    for (int k = 0; k < outer; ++k) for (int_t p = S.ptr[k]; p < S.ptr[k + 1]; ++p) {
        if (S.byrow) D(k, (int)S.idx[p]) += widen<T>(S.val[p]); else D((int)S.idx[p], k) += widen<T>(S.val[p]);
    }
    return D;
}

template <class W> inline Dense<W> transpose(const Dense<W> &A, bool conj = false)
{
    Dense<W> B(A.n, A.m);
    for (int j = 0; j < A.n; ++j) for (int i = 0; i < A.m; ++i) B(j, i) = conj ? conj_w(A(i, j)) : A(i, j);
    return B;
}

inline bool is_perm(const int *p, int n)
{
    std::vector<char> seen(n, 0);
    for (int i = 0; i < n; ++i) { if (p[i] < 0 || p[i] >= n || seen[p[i]]) return false; seen[p[i]] = 1; }
    return true;
}

// Maximum bipartite matching (Kuhn).  cols[j] = rows of column j.  Returns the matching size;
// match_row[i] = column matched to row i or -1.
inline int max_matching(const std::vector<std::vector<int>> &cols, int m, std::vector<int> *match_row_out = nullptr)
{
    int n = (int)cols.size();
    std::vector<int> mr(m, -1);
    std::vector<int> seen(m, -1);
    int size = 0;
    struct Rec {
        static bool aug(int j, int stamp, const std::vector<std::vector<int>> &cols, std::vector<int> &mr, std::vector<int> &seen) {
            for (int i : cols[j]) {
                if (seen[i] == stamp) continue;
                seen[i] = stamp;
                if (mr[i] < 0 || aug(mr[i], stamp, cols, mr, seen)) { mr[i] = j; return true; }
            }
            return false;
        }
    };
    for (int j = 0; j < n; ++j) if (Rec::aug(j, j, cols, mr, seen)) ++size;
    if (match_row_out) *match_row_out = mr;
    return size;
}

// Rank over the prime field Z_p, p = 998244353 (p = 1 mod 4, so sqrt(-1) exists and complex entries map to
// a + b*i).  Every double is m*2^e exactly, so the map is exact; rank_p <= true rank, hence every exactly
// singular matrix has rank_p < n (used only to route generators around known finding F-SS, never as an oracle).
inline uint64_t modpow(uint64_t b, uint64_t e, uint64_t p) { uint64_t r = 1; b %= p; while (e) { if (e & 1) r = (unsigned __int128)r * b % p; b = (unsigned __int128)b * b % p; e >>= 1; } return r; }
inline uint64_t double_mod_p(double v, uint64_t p)
{
    if (v == 0 || !std::isfinite(v)) return 0;
    int e; double f = std::frexp(std::fabs(v), &e);        // |v| = f * 2^e, f in [0.5,1)
    uint64_t m = (uint64_t)std::ldexp(f, 53); e -= 53;       // |v| = m * 2^e, m integer
    uint64_t r = m % p;
    uint64_t two = e >= 0 ? modpow(2, (uint64_t)e, p) : modpow(modpow(2, p - 2, p), (uint64_t)(-e), p);
    r = (unsigned __int128)r * two % p;
    return v < 0 ? (p - r) % p : r;
}
inline int rank_mod_p(const GMat &A)
{
    const uint64_t p = 998244353ULL;
    static const uint64_t im = modpow(3, (p - 1) / 4, p);    // sqrt(-1) mod p (3 is a primitive root)
    int m = A.m, n = A.n;
    std::vector<std::vector<uint64_t>> M(m, std::vector<uint64_t>(n, 0));
    for (int j = 0; j < n; ++j) for (auto &e : A.col[j]) {
        uint64_t v = (double_mod_p(e.second.re, p) + (unsigned __int128)double_mod_p(e.second.im, p) * im % p) % p;
        M[e.first][j] = (M[e.first][j] + v) % p;
    }
    int rank = 0; std::vector<char> used(m, 0);
    for (int j = 0; j < n; ++j) {
        int pr = -1; for (int i = 0; i < m; ++i) if (!used[i] && M[i][j]) { pr = i; break; }
        if (pr < 0) continue;
        used[pr] = 1; ++rank;
        uint64_t inv = modpow(M[pr][j], p - 2, p);
        for (int i = 0; i < m; ++i) if (!used[i] && M[i][j]) {
            uint64_t f = (unsigned __int128)M[i][j] * inv % p;
            for (int k = j; k < n; ++k) M[i][k] = (M[i][k] + p - (unsigned __int128)f * M[pr][k] % p) % p;
        }
    }
    return rank;
}
// True for every matrix that is exactly singular (and, with probability ~1e-9, for a nonsingular one).
inline bool maybe_exactly_singular(const GMat &A) { return rank_mod_p(A) < std::min(A.m, A.n); }

inline int struct_rank(const GMat &A)
{
    std::vector<std::vector<int>> cols(A.n);
    for (int j = 0; j < A.n; ++j) for (auto &e : A.col[j]) cols[j].push_back(e.first);
    return max_matching(cols, A.m);
}

// ---------------------------------------------------------------------------
// C03: structural validity of an (L,U) pair.
struct FactorShape {
    int m = 0, k = 0;
    int nsuper = -1;
    int max_width = 0, multi = 0;
    long nnzL = 0, nnzU = 0;
    long u_entries = 0;  // entries in U's own arrays
    bool u_nonempty = false;
};

inline bool region_ok(const void *p, size_t bytes)
{
    if (bytes == 0) return true;
    if (!p) return false;
    size_t bs = vf_block_size(p);
    if (bs != (size_t)-1) return bs >= bytes;
#ifdef VF_HAVE_ASAN
    return __asan_region_is_poisoned(const_cast<void *>(p), bytes) == nullptr;
#else
    return true;
#endif
}

template <class T>
inline bool check_structure(Ctx &cx, const SuperMatrix *L, const SuperMatrix *U, int m, int k, bool ilu, FactorShape &fs)
{
    const char *O = "structure";
    VF_REQUIREB(cx, L->Stype == SLU_SC && L->Dtype == Tr<T>::dtype && L->Mtype == SLU_TRLU, O, "L tags Stype=%d Dtype=%d Mtype=%d", L->Stype, L->Dtype, L->Mtype);
    VF_REQUIREB(cx, U->Stype == SLU_NC && U->Dtype == Tr<T>::dtype && U->Mtype == SLU_TRU, O, "U tags Stype=%d Dtype=%d Mtype=%d", U->Stype, U->Dtype, U->Mtype);
    VF_REQUIREB(cx, L->nrow == m && L->ncol == k, O, "L is %dx%d, expected %dx%d", L->nrow, L->ncol, m, k);
    VF_REQUIREB(cx, U->nrow == k && U->ncol == k, O, "U is %dx%d, expected %dx%d", U->nrow, U->ncol, k, k);
    const SCformat *Ls = (const SCformat *)L->Store;
    const NCformat *Us = (const NCformat *)U->Store;
    VF_REQUIREB(cx, Ls && Us, O, "null Store");
    fs.m = m; fs.k = k;
    int ns = Ls->nsuper;
    VF_REQUIREB(cx, ns >= 0 && ns < k, O, "nsuper=%d out of range for %d columns", ns, k);
    fs.nsuper = ns;
    VF_REQUIREB(cx, region_ok(Ls->sup_to_col, sizeof(int) * (size_t)(ns + 2)), O, "sup_to_col not addressable for nsuper+2 entries");
    VF_REQUIREB(cx, region_ok(Ls->col_to_sup, sizeof(int) * (size_t)k), O, "col_to_sup not addressable");
    VF_REQUIREB(cx, region_ok(Ls->rowind_colptr, sizeof(int_t) * (size_t)(k + 1)), O, "rowind_colptr not addressable");
    VF_REQUIREB(cx, region_ok(Ls->nzval_colptr, sizeof(int_t) * (size_t)(k + 1)), O, "nzval_colptr not addressable");
    VF_REQUIREB(cx, region_ok(Us->colptr, sizeof(int_t) * (size_t)(k + 1)), O, "U colptr not addressable");
    const int *xsup = Ls->sup_to_col, *supno = Ls->col_to_sup;
    const int_t *xlsub = Ls->rowind_colptr, *xlusup = Ls->nzval_colptr;
    VF_REQUIREB(cx, xsup[0] == 0, O, "sup_to_col[0]=%d", xsup[0]);
    VF_REQUIREB(cx, xsup[ns + 1] == k, O, "sup_to_col[nsuper+1]=%d != ncol=%d", xsup[ns + 1], k);
    for (int s = 0; s <= ns; ++s) VF_REQUIREB(cx, xsup[s] < xsup[s + 1], O, "supernode %d empty or decreasing: [%d,%d)", s, xsup[s], xsup[s + 1]);
    VF_REQUIREB(cx, xlsub[0] == 0, O, "rowind_colptr[0]=%lld", (long long)xlsub[0]);
    VF_REQUIREB(cx, xlusup[0] == 0, O, "nzval_colptr[0]=%lld", (long long)xlusup[0]);
    for (int j = 0; j < k; ++j) {
        VF_REQUIREB(cx, xlsub[j] <= xlsub[j + 1], O, "rowind_colptr decreasing at %d", j);
        VF_REQUIREB(cx, xlusup[j] <= xlusup[j + 1], O, "nzval_colptr decreasing at %d", j);
    }
    int_t lsub_len = xlsub[k];
    VF_REQUIREB(cx, region_ok(Ls->rowind, sizeof(int_t) * (size_t)lsub_len), O, "rowind not addressable for %lld entries", (long long)lsub_len);
    long nnzL = 0, nnzUdiag = 0;
    int_t expect_lsub = 0;
    std::vector<char> seen(m);
    for (int s = 0; s <= ns; ++s) {
        int f = xsup[s], l = xsup[s + 1] - 1, nsupc = l - f + 1;
        for (int j = f; j <= l; ++j) VF_REQUIREB(cx, supno[j] == s, O, "col_to_sup[%d]=%d, expected %d", j, supno[j], s);
        VF_REQUIREB(cx, xlsub[f] == expect_lsub, O, "row list of supernode %d starts at %lld, expected %lld", s, (long long)xlsub[f], (long long)expect_lsub);
        int_t nsupr = xlsub[f + 1] - xlsub[f];
        VF_REQUIREB(cx, nsupr >= nsupc, O, "supernode %d: row list length %lld < columns %d", s, (long long)nsupr, nsupc);
        VF_REQUIREB(cx, xlsub[f] + nsupr <= lsub_len, O, "supernode %d row list overruns", s);
        for (int j = f + 1; j <= l; ++j) VF_REQUIREB(cx, xlsub[j] == xlsub[f] + nsupr, O, "rowind_colptr[%d]=%lld: non-first column of supernode %d must point at the end of its list (%lld)", j, (long long)xlsub[j], s, (long long)(xlsub[f] + nsupr));
        const int_t *rl = Ls->rowind + xlsub[f];
        std::fill(seen.begin(), seen.end(), 0);
        for (int_t t = 0; t < nsupr; ++t) {
            int_t r = rl[t];
            if (t < nsupc) VF_REQUIREB(cx, r == f + t, O, "supernode %d: row list entry %lld is %lld, expected own column %lld", s, (long long)t, (long long)r, (long long)(f + t));
            else {
                VF_REQUIREB(cx, r > l && r < m, O, "supernode %d: row index %lld not in (%d,%d)", s, (long long)r, l, m);
                VF_REQUIREB(cx, !seen[r], O, "supernode %d: row index %lld repeated", s, (long long)r);
            }
            if (r >= 0 && r < m) seen[r] = 1;
        }
        expect_lsub = xlsub[f] + nsupr;
        for (int j = f; j <= l; ++j) {
            VF_REQUIREB(cx, xlusup[j + 1] - xlusup[j] == nsupr, O, "column %d holds %lld values, supernode %d has %lld rows", j, (long long)(xlusup[j + 1] - xlusup[j]), s, (long long)nsupr);
            nnzL += (long)(nsupr - (j - f));
            nnzUdiag += (j - f + 1);
        }
        if (nsupc > fs.max_width) fs.max_width = nsupc;
        if (nsupc >= 2) fs.multi++;
    }
    VF_REQUIREB(cx, expect_lsub == lsub_len, O, "rowind_colptr[ncol]=%lld but lists end at %lld", (long long)lsub_len, (long long)expect_lsub);
    VF_REQUIREB(cx, region_ok(Ls->nzval, sizeof(T) * (size_t)xlusup[k]), O, "L nzval not addressable for %lld values", (long long)xlusup[k]);
    const int_t *xusub = Us->colptr;
    VF_REQUIREB(cx, xusub[0] == 0, O, "U colptr[0]=%lld", (long long)xusub[0]);
    for (int j = 0; j < k; ++j) VF_REQUIREB(cx, xusub[j] <= xusub[j + 1], O, "U colptr decreasing at %d", j);
    VF_REQUIREB(cx, region_ok(Us->rowind, sizeof(int_t) * (size_t)xusub[k]), O, "U rowind not addressable for %lld entries", (long long)xusub[k]);
    VF_REQUIREB(cx, region_ok(Us->nzval, sizeof(T) * (size_t)xusub[k]), O, "U nzval not addressable for %lld values", (long long)xusub[k]);
    std::vector<int> mark(k, -1); std::vector<int_t> firstpos(k, 0);
    const T *uval = (const T *)Us->nzval;
    for (int j = 0; j < k; ++j) {
        int f = xsup[supno[j]];
        for (int_t p = xusub[j]; p < xusub[j + 1]; ++p) {
            int_t r = Us->rowind[p];
            VF_REQUIREB(cx, r >= 0 && r < f, O, "U column %d holds row %lld, not above its supernode (first column %d)", j, (long long)r, f);
            if (mark[r] == j) {
                if (!ilu) VF_FAILB(cx, O, "U column %d repeats row %lld", j, (long long)r);
                // incomplete LU: a row index may be repeated only by an explicit zero
                bool z_here = uval[p] == T(0), z_first = uval[firstpos[r]] == T(0);
                if (!z_here && !z_first) VF_FAILB(cx, O, "U column %d of the incomplete factorization repeats row %lld with two nonzero values", j, (long long)r);
                if (z_first) firstpos[r] = p;
            } else firstpos[r] = p;
            mark[r] = j;
        }
        if (xusub[j + 1] > xusub[j]) fs.u_nonempty = true;
    }
    fs.u_entries = (long)xusub[k];
    fs.nnzL = nnzL; fs.nnzU = (long)xusub[k] + nnzUdiag;
    VF_REQUIREB(cx, (long)Ls->nnz == fs.nnzL, O, "L.nnz=%lld but the structure implies %ld", (long long)Ls->nnz, fs.nnzL);
    VF_REQUIREB(cx, (long)Us->nnz == fs.nnzU, O, "U.nnz=%lld but the structure implies %ld", (long long)Us->nnz, fs.nnzU);
    return true;
}

// Decode (L,U) into dense unit-lower Ld (m x k) and upper Ud (k x k).  Call only after
// check_structure succeeded.
template <class T>
inline void decode_factors(const SuperMatrix *L, const SuperMatrix *U, Dense<typename Wide<T>::W> &Ld, Dense<typename Wide<T>::W> &Ud)
{
    typedef typename Wide<T>::W W;
    const SCformat *Ls = (const SCformat *)L->Store;
    const NCformat *Us = (const NCformat *)U->Store;
    int m = L->nrow, k = L->ncol;
    Ld = Dense<W>(m, k); Ud = Dense<W>(k, k);
    const T *lval = (const T *)Ls->nzval; const T *uval = (const T *)Us->nzval;
    for (int s = 0; s <= Ls->nsuper; ++s) {
        int f = Ls->sup_to_col[s], l = Ls->sup_to_col[s + 1] - 1;
        int_t nsupr = Ls->rowind_colptr[f + 1] - Ls->rowind_colptr[f];
        const int_t *rl = Ls->rowind + Ls->rowind_colptr[f];
        for (int j = f; j <= l; ++j) {
            const T *v = lval + Ls->nzval_colptr[j];
            for (int_t t = 0; t < nsupr; ++t) {
                int r = (int)rl[t];
                if (t <= j - f) Ud(r, j) += widen<T>(v[t]); else Ld(r, j) += widen<T>(v[t]);
            }
            Ld(j, j) = W(1);
        }
    }
    for (int j = 0; j < k; ++j) for (int_t p = Us->colptr[j]; p < Us->colptr[j + 1]; ++p) Ud((int)Us->rowind[p], j) += widen<T>(uval[p]);
}

// E = |Ld| |Ud|  (m x k), in the library's magnitude for complex.
template <class W> inline Dense<LD> abs_product(const Dense<W> &Ld, const Dense<W> &Ud)
{
    Dense<LD> E(Ld.m, Ud.n);
    for (int j = 0; j < Ud.n; ++j) for (int p = 0; p <= j && p < Ld.n; ++p) {
        LD u = absm(Ud(p, j)); if (u == 0) continue;
        for (int i = p; i < Ld.m; ++i) { LD l = absm(Ld(i, p)); if (l != 0) E(i, j) += l * u; }
    }
    return E;
}

template <class W> inline Dense<W> product(const Dense<W> &Ld, const Dense<W> &Ud)
{
    Dense<W> P(Ld.m, Ud.n);
    for (int j = 0; j < Ud.n; ++j) for (int p = 0; p <= j && p < Ld.n; ++p) {
        W u = Ud(p, j); if (u == W(0)) continue;
        for (int i = p; i < Ld.m; ++i) P(i, j) += Ld(i, p) * u;
    }
    return P;
}

template <class W> inline bool all_finite(const Dense<W> &A) { for (auto &x : A.a) if (!finite_w(x)) return false; return true; }

template <class T> struct Consts {
    static LD u() { return (LD)Tr<T>::eps(); }                // the library's unit roundoff (?mach("E"))
    static LD c() { return Tr<T>::is_complex ? 32.0L : 16.0L; }
    static LD safmin() { return (LD)std::numeric_limits<typename Tr<T>::R>::min(); }
};

// Pr A Pc = L U within c n u |L||U| (leading `ncols` columns).  A is the m x n matrix as factored.
template <class T>
inline bool check_identity(Ctx &cx, const Dense<typename Wide<T>::W> &A, const int *perm_r, const int *perm_c,
                           const Dense<typename Wide<T>::W> &Ld, const Dense<typename Wide<T>::W> &Ud, const Dense<LD> &E, int ncols, const char *O = "identity")
{
    typedef typename Wide<T>::W W;
    int m = A.m, n = A.n;
    Dense<W> P = product(Ld, Ud);
    LD tol = Consts<T>::c() * std::max(n, 1) * Consts<T>::u();
    LD amax = 0; for (auto &x : A.a) amax = std::max(amax, absm(x));
    // additive floor: products below the normal range lose relative accuracy (gradual underflow)
    LD floor_ = (LD)n * Consts<T>::safmin();
    std::vector<int> ipc(n);
    for (int j = 0; j < n; ++j) ipc[perm_c[j]] = j;
    for (int jj = 0; jj < ncols; ++jj) {
        int j = ipc[jj];
        for (int i = 0; i < m; ++i) {
            int ii = perm_r[i];
            LD d = absm(A(i, j) - P(ii, jj));
            LD b = tol * E(ii, jj) + floor_;
            if (!(d <= b)) VF_FAILB(cx, O, "(Pr*A*Pc)[%d,%d] (A[%d,%d]=%s) differs from (L*U)=%s by %.3Lg > bound %.3Lg (|L||U|=%.3Lg)", ii, jj, i, j, w_str(A(i, j)).c_str(), w_str(P(ii, jj)).c_str(), d, b, E(ii, jj));
        }
    }
    return true;
}

}  // namespace vf
