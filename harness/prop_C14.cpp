// C14 - sparse triangular solve / multiply kernels compute the documented operation.
#include "lucheck.hpp"

namespace vf {

template <class T> static T scalar_choice(Choice &c, bool cplx)
{
    unsigned k = c.below(6);
    ValGen g; g.kind = 1; g.cmode = 0; g.expK = 0; g.explicit_zero = false;
    switch (k) { case 0: return T(1); case 1: return T(0); case 2: return T(-1); case 3: return to_T<T>(Val{2, 0}); default: return to_T<T>(g.value(c, cplx)); }
}

// ---- products ------------------------------------------------------------------------------------
template <class T> static void run_gemv(Choice &c, Ctx &cx)
{
    typedef typename Wide<T>::W W; typedef typename Tr<T>::R R;
    const bool cplx = Tr<T>::is_complex, single = sizeof(R) == 4;
    int n = gen_size(c, cx.tier), m;
    { static const unsigned w[] = {5, 2, 2, 1, 1, 1}; int d = (int)c.weighted(w); m = c.chance(128) ? n + d : std::max(1, n - d); }
    std::string family;
    std::vector<std::vector<int>> pat;
    if (m >= n) pat = gen_pattern(c, m, n, PAT_ANY, family);
    else { auto pt = gen_pattern(c, n, m, PAT_ANY, family); pat.assign(n, {}); for (int j = 0; j < m; ++j) for (int i : pt[j]) pat[i].push_back(j); family += "(wide)"; }
    GMat G = gen_values(c, m, n, pat, cplx, single, family);
    Comp<T> S = to_comp<T>(G, false, c.chance(128) ? &c : nullptr);
    static const char *flags[] = {"N", "T", "C", "n", "t", "c"};
    unsigned fi = c.below(6);
    const char *tr = flags[fi]; int op = fi % 3;   // 0 N, 1 T, 2 C
    bool gemm = c.chance(80);
    T alpha = scalar_choice<T>(c, cplx), beta = scalar_choice<T>(c, cplx);
    static const int incs[] = {1, 2, -1, 3, -2, 1};
    int incx = 1, incy = 1;
    if (!gemm) { if (op == 0) incx = incs[c.below(6)]; else incy = incs[c.below(6)]; }
    int lenx = op == 0 ? n : m, leny = op == 0 ? m : n;
    int ncolb = gemm ? 1 + (int)c.below(3) : 1;
    int ldb = lenx + (gemm ? (int)c.below(3) : 0), ldc = leny + (gemm ? (int)c.below(3) : 0);
    size_t xs = gemm ? (size_t)ldb * ncolb : (size_t)(1 + (lenx - 1) * std::abs(incx));
    size_t ys = gemm ? (size_t)ldc * ncolb : (size_t)(1 + (leny - 1) * std::abs(incy));
    const T sent = sentinel_value<T>();
    std::vector<T> x(xs + 2, sent), y(ys + 2, sent);     // one guard element before and after
    ValGen g; g.kind = c.chance(128) ? 1 : 0; g.cmode = 0; g.expK = 0; g.explicit_zero = true;
    auto xpos = [&](int col, int i) -> size_t { if (gemm) return 1 + (size_t)col * ldb + i; int k0 = incx > 0 ? 0 : -(lenx - 1) * incx; return (size_t)(1 + k0 + i * incx); };
    auto ypos = [&](int col, int i) -> size_t { if (gemm) return 1 + (size_t)col * ldc + i; int k0 = incy > 0 ? 0 : -(leny - 1) * incy; return (size_t)(1 + k0 + i * incy); };
    for (int col = 0; col < ncolb; ++col) for (int i = 0; i < lenx; ++i) x[xpos(col, i)] = to_T<T>(g.value(c, cplx));
    bool beta0 = is_zero(beta);
    for (int col = 0; col < ncolb; ++col) for (int i = 0; i < leny; ++i) y[ypos(col, i)] = beta0 ? T(std::numeric_limits<R>::quiet_NaN()) : to_T<T>(g.value(c, cplx));
    cx.hash = fnv1a(c.d, c.consumed(), 0xC14ULL ^ ((uint64_t)Tr<T>::letter << 32));
    if (cx.dump) { cx.d(fmt("%s trans='%s' m=%d n=%d alpha=%s beta=%s incx=%d incy=%d ncols=%d ldb=%d ldc=%d", gemm ? "sp_gemm" : "sp_gemv", tr, m, n, w_str(widen<T>(alpha)).c_str(), w_str(widen<T>(beta)).c_str(), incx, incy, ncolb, ldb, ldc)); cx.d(gmat_str(G, cplx)); }
    cx.label(gemm ? "kernel=gemm" : "kernel=gemv"); cx.label(std::string("trans=") + tr); cx.label(m == n ? "square" : "rectangular");
    cx.label(beta0 ? "beta=0" : "beta!=0"); if (incx != 1 || incy != 1) cx.label("strided");

    // Known finding F01: lower-case 'n' selects the vector lengths of the transposed case (overflow on
    // rectangular A) and lower-case 't'/'c' are rejected although documented.
    if (fi >= 3 && cx.is_known("F01")) { cx.exclude("F01"); tr = flags[fi - 3]; cx.label("F01-class(remapped to upper case)"); }
    vf_case_begin(cx.fill(0xA5));
    std::vector<T> x0 = x, y0 = y, val0 = S.val; std::vector<int_t> idx0 = S.idx, ptr0 = S.ptr;
    MatView<T> A; A.create(S);
    char trbuf[2] = {tr[0], 0};
    int rv = -1;
    VF_GUARDED(cx, gemm ? "sp_gemm" : "sp_gemv", [&] {
        if (gemm) rv = Tr<T>::sp_gemm(trbuf, (char *)"N", leny, ncolb, lenx, alpha, &A.A, x.data() + 1, ldb, beta, y.data() + 1, ldc);
        else rv = Tr<T>::sp_gemv(trbuf, alpha, &A.A, x.data() + 1, incx, beta, y.data() + 1, incy);
    });
    A.destroy();
    VF_REQUIRE(cx, bytes_equal(x, x0), "x-modified", "the input vector x was modified");
    VF_REQUIRE(cx, bytes_equal(S.val, val0) && bytes_equal(S.idx, idx0) && bytes_equal(S.ptr, ptr0), "A-modified", "the matrix was modified");
    // reference
    Dense<W> Ad = dense_of(S);
    LD uu = Consts<T>::u();
    std::vector<char> written(y.size(), 0);
    for (int col = 0; col < ncolb; ++col) for (int i = 0; i < leny; ++i) {
        size_t yp = ypos(col, i); written[yp] = 1;
        W acc = W(0); LD mag = 0;
        for (int k = 0; k < lenx; ++k) {
            W a = op == 0 ? Ad(i, k) : (op == 1 ? Ad(k, i) : conj_w(Ad(k, i)));
            if (a == W(0)) continue;
            W xv = widen<T>(x0[xpos(col, k)]);
            acc += a * xv; mag += absm(a) * absm(xv);
        }
        W want = widen<T>(alpha) * acc; LD bound = absm(widen<T>(alpha)) * mag;
        if (!beta0) { want += widen<T>(beta) * widen<T>(y0[yp]); bound += absm(widen<T>(beta)) * absm(widen<T>(y0[yp])); }
        W got = widen<T>(y[yp]);
        LD tol = Consts<T>::c() * (lenx + 2) * uu * bound + 4 * Consts<T>::safmin();
        if (!finite_w(got) || !(absm(got - want) <= tol))
            VF_FAIL(cx, "product", "y(%d) of column %d is %s, expected alpha*op(A)*x + beta*y = %s (|diff| %.3Lg > %.3Lg)", i, col, w_str(got).c_str(), w_str(want).c_str(), absm(got - want), tol);
    }
    for (size_t q = 0; q < y.size(); ++q) if (!written[q] && std::memcmp(&y[q], &y0[q], sizeof(T)) != 0) VF_FAIL(cx, "y-guard", "element %zu of y's array lies outside the vector (guard / stride gap / padding) but was overwritten", q);
    if (!ledger_clean(cx, "after the product")) return;
    cx.nontrivial = (m != n && !beta0 && !(beta == T(1))) || fi >= 3 || (incx != 1 || incy != 1);
}

// ---- triangular solves and ?gstrs ----------------------------------------------------------------
template <class T> static void run_solve(Choice &c, Ctx &cx, bool use_gstrs)
{
    typedef typename Wide<T>::W W; typedef typename Tr<T>::R R;
    const bool cplx = Tr<T>::is_complex, single = sizeof(R) == 4;
    int n = gen_size(c, cx.tier);
    std::string family;
    auto pat = gen_pattern(c, n, n, PAT_NONSING, family);
    GMat G = gen_values(c, n, n, pat, cplx, single, family);
    Opts o = gen_opts(c, n, single, true, false);
    o.nr = false;
    if (o.u < 0.01) o.u = 0.01;   // keep |L| moderate: the kernels, not growth, are under test
    Comp<T> S = to_comp<T>(G, false, o.shuffle_rows ? &c : nullptr);
    unsigned combo = c.below(12);      // uplo x trans x diag
    trans_t gt = (trans_t)c.below(3);
    int nrhs = use_gstrs ? 1 + (int)c.below(4) : 1;
    int ldb = n + (use_gstrs ? (int)c.below(4) : 0);
    std::vector<T> B = gen_rhs<T>(c, n, nrhs, ldb, cplx);
    cx.hash = fnv1a(c.d, c.consumed(), 0xC14AULL ^ ((uint64_t)Tr<T>::letter << 32));
    if (cx.dump) { cx.d(fmt("%s n=%d combo=%u gstrs_trans=%d nrhs=%d ldb=%d", use_gstrs ? "gstrs" : "sp_trsv", n, combo, (int)gt, nrhs, ldb)); cx.d(opts_str(o, false)); cx.d(gmat_str(G, cplx)); }
    cx.label(use_gstrs ? "kernel=gstrs" : "kernel=trsv");
    if (cx.is_known("F-SS") && maybe_exactly_singular(G)) { cx.exclude("F-SS"); return; }
    vf_case_begin(cx.fill(0xA5));
    apply_tuning(o.tune);
    superlu_options_t so; set_default_options(&so); apply_opts(o, so);
    std::vector<int> perm_r(n, -1), perm_c(n, -1), etree(n, -1);
    if (o.colperm == MY_PERMC) perm_c = o.my_perm_c;
    MatView<T> A; A.create(S);
    SuperMatrix L, U, AC; SuperLUStat_t stat; StatInit(&stat); GlobalLU_t Glu; int_t info = -999; bool have_ac = false;
    VF_GUARDED(cx, "factor", [&] {
        if (o.colperm != MY_PERMC) get_perm_c((int)o.colperm, &A.A, perm_c.data());
        sp_preorder(&so, &A.A, perm_c.data(), etree.data(), &AC); have_ac = true;
        Tr<T>::gstrf(&so, &AC, sp_ienv(2), sp_ienv(1), etree.data(), nullptr, 0, perm_c.data(), perm_r.data(), &L, &U, &Glu, &stat, &info);
    });
    auto cleanup = [&] { if (info >= 0 && info <= n) { Destroy_SuperNode_Matrix(&L); Destroy_CompCol_Matrix(&U); } if (have_ac) Destroy_CompCol_Permuted(&AC); A.destroy(); StatFree(&stat); };
    if (info != 0) { cleanup(); vf_purge(); if (info > 0 && info <= n) { cx.label("singular-return"); return; } VF_FAIL(cx, "info", "factorization returned info=%lld", (long long)info); }
    FactorShape fs;
    if (!check_structure<T>(cx, &L, &U, n, n, false, fs)) { cleanup(); vf_purge(); return; }
    Dense<W> Ld, Ud; decode_factors<T>(&L, &U, Ld, Ud);
    if (!all_finite(Ld) || !all_finite(Ud)) { cleanup(); cx.skip("overflow-degenerate"); return; }
    // snapshot of the factor arrays: only the output vector may be written
    const SCformat *Ls = (const SCformat *)L.Store; const NCformat *Us = (const NCformat *)U.Store;
    std::vector<T> lval((const T *)Ls->nzval, (const T *)Ls->nzval + Ls->nzval_colptr[n]), uval((const T *)Us->nzval, (const T *)Us->nzval + Us->colptr[n]);
    std::vector<int_t> lsub(Ls->rowind, Ls->rowind + Ls->rowind_colptr[n]), usub(Us->rowind, Us->rowind + Us->colptr[n]);
    LD uu = Consts<T>::u(), tol = Consts<T>::c() * n * uu;
    bool ok = true;
    if (!use_gstrs) {
        bool upper = combo >= 6; int tr = (combo % 6) / 2; bool unit = (combo % 2) == 0;
        char uplo[2] = {upper ? 'U' : 'L', 0}, trans[2] = {"NTC"[tr], 0}, diag[2] = {unit ? 'U' : 'N', 0};
        cx.label(fmt("trsv=%s%s%s", uplo, trans, diag));
        std::vector<T> x(B.begin(), B.begin() + n), b0 = x; x.push_back(sentinel_value<T>());
        int tinfo = -999;
        if (guarded([&] { Tr<T>::sp_trsv(uplo, trans, diag, &L, &U, x.data(), &stat, &tinfo); })) { cleanup(); vf_purge(); VF_FAIL(cx, "abort", "sp_trsv: library called ABORT: %s", vf_abort_msg()); }
        bool natural = upper ? !unit : unit;
        do {
            if (tinfo != 0) { cx.fail("trsv-info", fmt("sp_trsv('%s','%s','%s') returned info=%d on valid arguments", uplo, trans, diag, tinfo)); ok = false; break; }
            T s = sentinel_value<T>(); if (std::memcmp(&x[n], &s, sizeof(T)) != 0) { cx.fail("x-overrun", "sp_trsv wrote past the end of x"); ok = false; break; }
            if (!natural) { cx.label("diag-flag-unnatural(memory only)"); break; }
            const Dense<W> &Tm = upper ? Ud : Ld;
            for (int i = 0; i < n && ok; ++i) {
                W r = widen<T>(b0[i]); LD mag = 0;
                for (int k = 0; k < n; ++k) { W t = tr == 0 ? Tm(i, k) : (tr == 1 ? Tm(k, i) : conj_w(Tm(k, i))); if (t == W(0)) continue; W xv = widen<T>(x[k]); r -= t * xv; mag += absm(t) * absm(xv); }
                if (!std::isfinite((double)mag)) { cx.skip("overflow-degenerate"); break; }
                if (!(absm(r) <= tol * mag + n * Consts<T>::safmin())) { cx.fail("trsv-residual", fmt("sp_trsv('%s','%s','%s'): |op(T)x - b|_%d = %.3Lg exceeds c*n*eps*(|T||x|)_%d = %.3Lg", uplo, trans, diag, i, absm(r), i, tol * mag)); ok = false; }
            }
        } while (0);
        cx.nontrivial = fs.multi > 0 && tr != 0;
    } else {
        cx.label(fmt("gstrs-trans=%d nrhs=%d", (int)gt, nrhs)); if (ldb > n) cx.label("ldb>n");
        std::vector<T> X = B, B0 = B;
        DenseView<T> Xv; Xv.create(n, nrhs, X.data(), ldb);
        int sinfo = -999;
        if (guarded([&] { Tr<T>::gstrs(gt, &L, &U, perm_c.data(), perm_r.data(), &Xv.X, &stat, &sinfo); })) { Xv.destroy(); cleanup(); vf_purge(); VF_FAIL(cx, "abort", "gstrs: library called ABORT: %s", vf_abort_msg()); }
        Xv.destroy();
        do {
            if (sinfo != 0) { cx.fail("gstrs-info", fmt("gstrs returned info=%d on valid arguments", sinfo)); ok = false; break; }
            for (int j = 0; j < nrhs && ok; ++j) for (int i = n; i < ldb; ++i) if (std::memcmp(&X[(size_t)j * ldb + i], &B0[(size_t)j * ldb + i], sizeof(T)) != 0) { cx.fail("padding", fmt("padding row %d of column %d overwritten", i, j)); ok = false; }
            if (ok && std::memcmp(&X.back(), &B0.back(), sizeof(T)) != 0) { cx.fail("padding", "element past the end of B overwritten"); ok = false; }
            if (!ok) break;
            Dense<LD> E = abs_product(Ld, Ud);
            if (!all_finite(E)) { cx.skip("overflow-degenerate"); break; }
            Dense<W> A0 = dense_of(S);
            Dense<W> Op = gt == NOTRANS ? A0 : transpose(A0, gt == CONJ);
            Dense<LD> F = permute_back(E, perm_r.data(), perm_c.data(), n, gt != NOTRANS);
            ok = check_residual<T>(cx, Op, F, X.data(), ldb, B0.data(), ldb, nrhs, nullptr, nullptr, 1, "gstrs-residual");
            if (!ok || cx.skipped) break;
#ifndef VF_VENDOR_BLAS
            // each column is solved independently of how many are passed together (bit-for-bit with the bundled BLAS)
            for (int j = 0; j < nrhs && ok; ++j) {
                std::vector<T> one(B0.begin() + (size_t)j * ldb, B0.begin() + (size_t)j * ldb + n);
                DenseView<T> Ov; Ov.create(n, 1, one.data(), n); int oi = -999;
                if (guarded([&] { Tr<T>::gstrs(gt, &L, &U, perm_c.data(), perm_r.data(), &Ov.X, &stat, &oi); })) { Ov.destroy(); cx.fail("abort", fmt("gstrs: library called ABORT: %s", vf_abort_msg())); ok = false; break; }
                Ov.destroy();
                if (std::memcmp(one.data(), &X[(size_t)j * ldb], sizeof(T) * (size_t)n) != 0) { cx.fail("column-independence", fmt("column %d solved alone differs bit-for-bit from the same column solved together with %d others", j, nrhs - 1)); ok = false; }
            }
#endif
        } while (0);
        cx.nontrivial = fs.multi > 0 && (gt != NOTRANS || nrhs >= 2);
    }
    if (ok) {
        const SCformat *Ls2 = (const SCformat *)L.Store; const NCformat *Us2 = (const NCformat *)U.Store;
        auto differs = [](const void *a, const void *b, size_t bytes) { return bytes != 0 && std::memcmp(a, b, bytes) != 0; };
        if (differs(Ls2->nzval, lval.data(), sizeof(T) * lval.size()) || differs(Us2->nzval, uval.data(), sizeof(T) * uval.size()) ||
            differs(Ls2->rowind, lsub.data(), sizeof(int_t) * lsub.size()) || differs(Us2->rowind, usub.data(), sizeof(int_t) * usub.size())) { cx.fail("factors-modified", "the solve modified the factors"); ok = false; }
    }
    cleanup();
    if (!ok) { vf_purge(); return; }
    ledger_clean(cx, "after the solve");
    if (fs.multi) cx.label("supernodes=multi");
}

template <class T> static void run_T(Choice &c, Ctx &cx)
{
    unsigned k = c.below(5);
    if (k <= 1) run_gemv<T>(c, cx); else run_solve<T>(c, cx, k == 4);
}

static void run(char type, Choice &c, Ctx &cx)
{
    switch (type) {
    case 's': run_T<float>(c, cx); break;
    case 'd': run_T<double>(c, cx); break;
    case 'c': run_T<cfloat>(c, cx); break;
    default: run_T<cdouble>(c, cx); break;
    }
}

const PropInfo vf_prop = {
    "C14",
    "three kernel families: (1) sp_?gemv / sp_?gemm on m x n (tall, square, wide) A with trans spelled N,T,C,n,t,c, alpha/beta in {1,0,-1,2,random}, strides in {1,2,-1,3,-2} on the side the code implements, y filled with NaN when beta=0, "
    "guard elements around and between the vector elements; (2) sp_?trsv with all 12 uplo/trans/diag combinations on factor pairs from real factorizations under generated tunings; (3) ?gstrs with Trans x nrhs 1..4 x ldb n..n+3; "
    "oracle: componentwise |y - (alpha*op(A)*x + beta*y0)| <= c(k+2)eps(|alpha||op(A)||x| + |beta||y0|), |op(T)x - b| <= c*n*eps*|T||x| for the decoded dense factor, factor-derived residual bound per right-hand side, "
    "x / A / factors bit-identical, guards and padding untouched, columns solved together vs alone bit-identical (bundled BLAS); "
    "non-trivial = rectangular A with beta not in {0,1}, lower-case flag or stride != 1; supernode width >= 2 with op != N or nrhs >= 2; distinct = hash of consumed stream prefix and type",
    run, "sdcz"};

}  // namespace vf
