// C11 - equilibration factors (?gsequ) and their application (?laqgs) follow the definition.
#include "drive.hpp"

namespace vf {

template <class R> static double extreme_real(Choice &c)
{
    const bool single = sizeof(R) == 4;
    const int emax = single ? 127 : 1023, emin = single ? -126 : -1022, sub = single ? 23 : 52;
    unsigned kind = c.below(16);
    int m16 = (int)(c.u16() ^ 0x8000u) - 32768; if (m16 == 0) m16 = 32768;
    double f = m16 / 32768.0;                 // in [-1,1], never 0
    switch (kind) {
    case 0: case 1: case 2: case 3: case 4: case 5: return f;                                   // ordinary
    case 6: return std::ldexp(f, zigzag(c.u8(), single ? 60 : 300));                            // moderate scaling
    case 7: return std::ldexp(f, zigzag(c.u8(), single ? 120 : 1000));                           // wide scaling
    case 8: return std::ldexp(f < 0 ? -0.75 : 0.75, emax + 1);                                   // near overflow (0.75 * 2^(emax+1))
    case 9: return std::ldexp(f, emax);                                                          // huge
    case 10: return std::ldexp(f < 0 ? -1.0 : 1.0, emin - (int)c.below((unsigned)sub));          // subnormal / smallest normal
    case 11: return std::ldexp(f, emin);                                                         // around the underflow threshold
    case 12: return 0.0;                                                                         // explicit zero
    case 13: return std::ldexp(1.0, emin - sub);                                                 // smallest subnormal
    default: return f;
    }
}

template <class T> static T extreme_value(Choice &c);
template <> float extreme_value<float>(Choice &c) { return (float)extreme_real<float>(c); }
template <> double extreme_value<double>(Choice &c) { return extreme_real<double>(c); }
template <> cfloat extreme_value<cfloat>(Choice &c) { double a = extreme_real<float>(c) * 0.5, b = c.chance(160) ? extreme_real<float>(c) * 0.5 : 0.0; if (c.chance(40)) std::swap(a, b); return cfloat((float)a, (float)b); }
template <> cdouble extreme_value<cdouble>(Choice &c) { double a = extreme_real<double>(c) * 0.5, b = c.chance(160) ? extreme_real<double>(c) * 0.5 : 0.0; if (c.chance(40)) std::swap(a, b); return cdouble(a, b); }

template <class T> static void run_T(Choice &c, Ctx &cx)
{
    typedef typename Tr<T>::R R; typedef typename Wide<T>::W W;
    const bool cplx = Tr<T>::is_complex;
    int n = gen_size(c, cx.tier);
    static const unsigned wm[] = {8, 2, 2, 1, 1};
    int m = n + (int)c.weighted(wm);
    if (c.chance(48) && n > 1) { m = 1 + (int)c.below((unsigned)n); }   // wide shapes as well
    std::string family;
    std::vector<std::vector<int>> pat;
    if (m >= n) pat = gen_pattern(c, m, n, PAT_ANY, family);
    else { auto pt = gen_pattern(c, n, m, PAT_ANY, family); pat.assign(n, {}); for (int j = 0; j < m; ++j) for (int i : pt[j]) pat[i].push_back(j); family += "(wide)"; }
    Comp<T> S; S.m = m; S.n = n; S.byrow = false; S.ptr.assign(n + 1, 0); S.idx.reserve(8); S.val.reserve(8);
    bool extreme = c.chance(170);
    GMat G; if (!extreme) G = gen_values(c, m, n, pat, cplx, sizeof(R) == 4, family);
    for (int j = 0; j < n; ++j) {
        for (size_t k = 0; k < pat[j].size(); ++k) { S.idx.push_back(pat[j][k]); S.val.push_back(extreme ? extreme_value<T>(c) : to_T<T>(G.col[j][k].second)); }
        S.ptr[j + 1] = (int_t)S.idx.size();
    }
    cx.hash = fnv1a(c.d, c.consumed(), 0xC11ULL ^ ((uint64_t)Tr<T>::letter << 32));
    if (cx.dump) {
        cx.d(fmt("gsequ + laqgs m=%d n=%d family=%s values=%s", m, n, family.c_str(), extreme ? "extreme" : G.vkind.c_str()));
        for (int j = 0; j < n; ++j) { std::string s = fmt("  col %d:", j); for (int_t p = S.ptr[j]; p < S.ptr[j + 1]; ++p) s += fmt(" (%d: %s)", (int)S.idx[p], w_str(widen<T>(S.val[p])).c_str()); cx.d(s); }
    }
    cx.label(extreme ? "values=extreme" : "values=ordinary"); cx.label(m == n ? "square" : (m > n ? "tall" : "wide"));
    const LD sml = (LD)std::numeric_limits<R>::min(), big = 1 / sml, uu = Consts<T>::u();
    auto clamp = [&](LD x) { return std::min(std::max(x, sml), big); };

    vf_case_begin(cx.fill(0xA5));
    std::vector<int_t> idx0 = S.idx, ptr0 = S.ptr; std::vector<T> val0 = S.val;
    MatView<T> A; A.create(S);
    std::vector<R> r(m + 1, (R)-55), cc(n + 1, (R)-55);
    R rowcnd = -55, colcnd = -55, amax = -55; int info = -999;
    VF_GUARDED(cx, "gsequ", [&] { Tr<T>::gsequ(&A.A, r.data(), cc.data(), &rowcnd, &colcnd, &amax, &info); });
    auto fin = [&] { A.destroy(); };
    bool ok = true; bool clampedAny = false, midzero = false;
    do {
        if (r[m] != (R)-55 || cc[n] != (R)-55) { cx.fail("overrun", "gsequ wrote past the end of R or C"); ok = false; break; }
        if (!bytes_equal(S.idx, idx0) || !bytes_equal(S.ptr, ptr0) || !bytes_equal(S.val, val0)) { cx.fail("input-modified", "gsequ modified the matrix"); ok = false; break; }
        // reference row maxima
        std::vector<LD> rmax(m, 0);
        for (int j = 0; j < n; ++j) for (int_t p = S.ptr[j]; p < S.ptr[j + 1]; ++p) rmax[S.idx[p]] = std::max(rmax[S.idx[p]], abs1(widen<T>(S.val[p])));
        int zrow = -1; for (int i = 0; i < m; ++i) if (rmax[i] == 0) { zrow = i; break; }
        LD amax_ref = 0; for (int i = 0; i < m; ++i) amax_ref = std::max(amax_ref, rmax[i]);
        if (!(std::fabs((LD)amax - amax_ref) <= 2 * uu * amax_ref)) { cx.fail("amax", fmt("amax=%g but the largest entry magnitude is %Lg", (double)amax, amax_ref)); ok = false; break; }
        if (zrow >= 0) {
            if (info != zrow + 1) { cx.fail("zero-row", fmt("row %d is the first all-zero row, expected info=%d, got %d", zrow, zrow + 1, info)); ok = false; break; }
            if (zrow > 0 && zrow < m - 1) midzero = true;
            cx.label("info=zero-row");
            break;
        }
        if (info >= 1 && info <= m) { cx.fail("zero-row", fmt("info=%d reports a zero row but every row has a nonzero entry (row maximum %Lg)", info, rmax[info - 1])); ok = false; break; }
        LD rmn = rmax[0], rmx = rmax[0];
        for (int i = 0; i < m && ok; ++i) {
            LD want = 1 / clamp(rmax[i]);
            rmn = std::min(rmn, rmax[i]); rmx = std::max(rmx, rmax[i]);
            if (clamp(rmax[i]) != rmax[i]) clampedAny = true;
            if (!(r[i] > 0) || !std::isfinite((double)r[i]) || !(std::fabs((LD)r[i] - want) <= 4 * uu * want) || (LD)r[i] < sml * (1 - 4 * uu) || (LD)r[i] > big * (1 + 4 * uu)) {
                cx.fail("row-factor", fmt("R[%d]=%g, expected 1/clamp(row max %Lg) = %Lg within the safe range [%Lg,%Lg]", i, (double)r[i], rmax[i], want, sml, big)); ok = false;
            }
        }
        if (!ok) break;
        if (rmn >= sml && rmx <= big) { LD want = rmn / rmx; if (!(std::fabs((LD)rowcnd - want) <= 8 * uu * want + 2 * (LD)std::numeric_limits<R>::denorm_min())) { cx.fail("rowcnd", fmt("rowcnd=%g, definition min(R)/max(R) = %Lg", (double)rowcnd, want)); ok = false; break; } }
        // column maxima of diag(R)*A with the returned R
        std::vector<LD> cmax(n, 0); bool degenerate = false;
        for (int j = 0; j < n; ++j) for (int_t p = S.ptr[j]; p < S.ptr[j + 1]; ++p) cmax[j] = std::max(cmax[j], abs1(widen<T>(S.val[p])) * (LD)r[S.idx[p]]);
        // a scaled maximum below a few subnormal ulps can round to zero in working precision (the library then reports a zero
        // column, LAPACK-inherited): not judged.  A maximum that is subnormal but safely nonzero is judged: it must be clamped.
        const LD dmin = (LD)std::numeric_limits<R>::denorm_min();
        for (int j = 0; j < n; ++j) if (cmax[j] > 0 && cmax[j] < 8 * dmin) degenerate = true;
        if (degenerate) { cx.label("underflow-degenerate(column stage not judged)"); break; }
        int zcol = -1; for (int j = 0; j < n; ++j) if (cmax[j] == 0) { zcol = j; break; }
        if (zcol >= 0) {
            if (info != m + zcol + 1) { cx.fail("zero-column", fmt("column %d is the first all-zero column, expected info=%d, got %d", zcol, m + zcol + 1, info)); ok = false; break; }
            if (zcol > 0 && zcol < n - 1) midzero = true;
            cx.label("info=zero-column");
            break;
        }
        if (info != 0) { cx.fail("info", fmt("info=%d but no row or column is all zero", info)); ok = false; break; }
        LD cmn = cmax[0], cmx = cmax[0];
        for (int j = 0; j < n && ok; ++j) {
            LD want = 1 / clamp(cmax[j]);
            cmn = std::min(cmn, cmax[j]); cmx = std::max(cmx, cmax[j]);
            if (clamp(cmax[j]) != cmax[j]) clampedAny = true;
            if (!(cc[j] > 0) || !std::isfinite((double)cc[j]) || !(std::fabs((LD)cc[j] - want) <= 6 * uu * want) || (LD)cc[j] < sml * (1 - 4 * uu) || (LD)cc[j] > big * (1 + 4 * uu)) {
                cx.fail("column-factor", fmt("C[%d]=%g, expected 1/clamp(scaled column max %Lg) = %Lg", j, (double)cc[j], cmax[j], want)); ok = false;
            }
        }
        if (!ok) break;
        if (cmn >= sml && cmx <= big) { LD want = cmn / cmx; if (!(std::fabs((LD)colcnd - want) <= 8 * uu * want + 2 * (LD)std::numeric_limits<R>::denorm_min())) { cx.fail("colcnd", fmt("colcnd=%g, definition min(C)/max(C) = %Lg", (double)colcnd, want)); ok = false; break; } }
        // the defining property: largest entry of every row of diag(R)*A equals one unless clamped
        for (int i = 0; i < m && ok; ++i) if (clamp(rmax[i]) == rmax[i]) { LD v = rmax[i] * (LD)r[i]; if (!(std::fabs(v - 1) <= 4 * uu)) { cx.fail("row-unit", fmt("largest entry of scaled row %d is %Lg, not 1", i, v)); ok = false; } }
        for (int j = 0; j < n && ok; ++j) if (clamp(cmax[j]) == cmax[j]) { LD v = cmax[j] * (LD)cc[j]; if (!(std::fabs(v - 1) <= 6 * uu)) { cx.fail("column-unit", fmt("largest entry of scaled column %d is %Lg, not 1", j, v)); ok = false; } }
    } while (0);
    if (!ok) { fin(); vf_purge(); return; }

    // ---- laqgs: threshold rule and exact application --------------------------------------------
    std::vector<R> r2(m), c2(n);
    bool use_eq = (info == 0) && c.chance(200);
    for (int i = 0; i < m; ++i) r2[i] = use_eq ? r[i] : (R)std::ldexp(1.0, zigzag(c.u8(), 8));
    for (int j = 0; j < n; ++j) c2[j] = use_eq ? cc[j] : (R)std::ldexp(1.0, zigzag(c.u8(), 8));
    R rc = rowcnd, ccnd = colcnd, am = amax;
    unsigned pert = c.below(8);
    const R small = (R)((LD)std::numeric_limits<R>::min() / (2 * uu)), large = 1 / small;
    static const double cnds[] = {1.0, 0.1, 0.0999, 0.5, 0.01, 1e-8, 0.100001, 0.0};
    if (!use_eq || (pert & 1)) rc = (R)cnds[c.below(8)];
    if (!use_eq || (pert & 2)) ccnd = (R)cnds[c.below(8)];
    if (!use_eq || (pert & 4)) { static const int am_kind[] = {0, 0, 1, 2, 3, 4}; switch (am_kind[c.below(6)]) { case 0: am = 1; break; case 1: am = small; break; case 2: am = large; break; case 3: am = small / 2; break; default: am = large * 2; } }
    bool overflow_risk = false;
    if (!use_eq) for (size_t k = 0; k < S.val.size(); ++k) if (abs1(widen<T>(S.val[k])) > (LD)std::numeric_limits<R>::max() / 1e6L) overflow_risk = true;
    char equed = '?';
    std::vector<R> r2s = r2, c2s = c2;
    if (!overflow_risk) {
        VF_GUARDED(cx, "laqgs", [&] { Tr<T>::laqgs(&A.A, r2.data(), c2.data(), rc, ccnd, am, &equed); });
        char want;
        bool rowok = rc >= (R)0.1 && am >= small && am <= large;
        if (rowok) want = (ccnd >= (R)0.1) ? 'N' : 'C'; else want = (ccnd >= (R)0.1) ? 'R' : 'B';
        do {
            if (equed != want) { cx.fail("equed-rule", fmt("rowcnd=%g colcnd=%g amax=%g: documented rule gives '%c', laqgs returned '%c'", (double)rc, (double)ccnd, (double)am, want, equed)); ok = false; break; }
            if (!bytes_equal(S.idx, idx0) || !bytes_equal(S.ptr, ptr0)) { cx.fail("index-arrays-modified", "laqgs modified the pointer/index arrays"); ok = false; break; }
            if (!bytes_equal(r2, r2s) || !bytes_equal(c2, c2s)) { cx.fail("factors-modified", "laqgs modified R or C"); ok = false; break; }
            for (int j = 0; j < n && ok; ++j) for (int_t p = S.ptr[j]; p < S.ptr[j + 1] && ok; ++p) {
                W a = widen<T>(val0[p]), got = widen<T>(S.val[p]);
                LD f = 1; if (equed == 'R' || equed == 'B') f *= (LD)r2[S.idx[p]]; if (equed == 'C' || equed == 'B') f *= (LD)c2[j];
                W expect = a * f;
                // the two factors are multiplied first (as in LAPACK's xLAQGE); outside the normal range that product
                // over/underflows on its own: overflow-degenerate, not judged
                if (equed == 'B') { LD pr = (LD)r2[S.idx[p]] * (LD)c2[j]; if (!(pr >= sml && pr <= (LD)std::numeric_limits<R>::max())) continue; }
                if (equed == 'N') { if (std::memcmp(&S.val[p], &val0[p], sizeof(T)) != 0) { cx.fail("scaled-although-N", fmt("equed='N' but entry (%d,%d) changed", (int)S.idx[p], j)); ok = false; } }
                else if (!(absm(got - expect) <= 4 * uu * absm(expect) + 4 * (LD)std::numeric_limits<R>::denorm_min()) && finite_w(expect)) { cx.fail("application", fmt("equed='%c': entry (%d,%d) = %s, expected value*factors = %s", equed, (int)S.idx[p], j, w_str(got).c_str(), w_str(expect).c_str())); ok = false; }
            }
        } while (0);
        cx.label(std::string("equed=") + equed);
    }
    fin();
    if (!ok) { vf_purge(); return; }
    if (!ledger_clean(cx, "after gsequ/laqgs")) return;
    if (clampedAny) cx.label("clamped-factor");
    cx.nontrivial = clampedAny || midzero || equed == 'R' || equed == 'C' || equed == 'B';
}

static void run(char type, Choice &c, Ctx &cx)
{
    switch (type) {
    case 's': run_T<float>(c, cx); break;
    case 'd': run_T<double>(c, cx); break;
    case 'c': run_T<cfloat>(c, cx); break;
    default: run_T<cdouble>(c, cx); break;
    }
}

const PropInfo vf_prop = {
    "C11",
    "m x n sparse A (tall, square, wide; empty rows/columns anywhere) with entries over the whole floating range (subnormals, smallest normal, near-overflow, 2^k scalings, explicit zeros; complex measured as |re|+|im|) "
    "through ?gsequ; then ?laqgs with the computed or independently generated factors and with rowcnd/colcnd/amax moved across the documented thresholds; oracle: long-double reference row maxima and row-scaled column maxima, "
    "R and C = 1/clamp(max) within 4-6 eps, positive, finite, inside [safmin, 1/safmin], rowcnd/colcnd/amax equal their definitions (ratios judged inside the safe range), first all-zero row / column reported by position "
    "(column stage not judged when a scaled maximum underflows), equed follows the documented rule, every stored entry equals value x selected factors within 4 eps, index arrays and factors untouched; "
    "non-trivial = a clamped factor, or a zero row/column that is neither first nor last, or equed in {R,C,B}; distinct = hash of consumed stream prefix and type",
    run, "sdcz"};

}  // namespace vf
