// One factorization (sp_preorder + ?gstrf / ?gsitrf) under a chosen way of obtaining factor storage:
// fill estimate, library allocation or caller workspace of a given length and alignment.  Used by C07, C08, C19.
#pragma once
#include "lucheck.hpp"
#include "isolate.hpp"
#include <sys/mman.h>

#ifdef VF_HAVE_ASAN
extern "C" void __asan_poison_memory_region(void const volatile *addr, size_t size);
extern "C" void __asan_unpoison_memory_region(void const volatile *addr, size_t size);
#endif

namespace vf {

struct StorageCfg {
    int fill = 5;             // sp_ienv(6)
    long lwork = 0;           // 0: library allocation; > 0: caller workspace of this many bytes
    int misalign = 0;         // 0: workspace base 8-byte aligned; 4: offset by 4 bytes
    unsigned char workfill = 0x5A;
    std::string str() const { return lwork > 0 ? fmt("fill=%d USER lwork=%ld base%%8=%d", fill, lwork, misalign) : fmt("fill=%d SYSTEM", fill); }
};

// Workspace base offset: 0 (8-byte aligned) or 4.  Known finding F20: with 64-bit indices the int_t arrays carved from a
// 4-byte aligned workspace are accessed misaligned (undefined behaviour, flagged by UBSan); routed to aligned while open.
inline int pick_misalign(bool want4, Ctx &cx)
{
    if (!want4) return 0;
    if (sizeof(int_t) == 8 && cx.is_known("F20")) { cx.exclude("F20"); return 0; }
    return 4;
}

struct FactorOutcome {
    bool aborted = false; std::string abort_msg;
    long long info = -999;
    uint64_t digest = 0;           // perms, structure and values of L and U, nnz counts
    int grew = 0;                  // bit 1: L values (LUSUP) grew beyond the initial estimate, 2: U values/indices (UCOL/USUB), 4: L subscripts (LSUB)
    int expansions = -1; long expand_allocs = 0; int glu_exp = 0;   // glu_exp: growth events counted by the library itself, also valid on a failed return
    float for_lu = 0, total_needed = 0;
    long implied_lo = 0, implied_hi = 0;   // byte size of the returned arrays: used part / plus the pointer arrays
    bool canary_ok = true; std::string canary_msg; bool stack_overlap = false;
    bool structure_ok = true; std::string structure_msg, structure_oracle;
    bool leak = false; std::string leak_msg;
    int multi = 0; bool identity_ok = true; std::string identity_msg, identity_oracle; bool degenerate = false;
    static std::string clean(std::string s) { for (auto &ch : s) if (ch == '|' || ch == '\x1e' || ch == '\x1f') ch = '/'; if (s.size() > 600) s.resize(600); return s; }
    std::string serialize() const {
        return fmt("%d|%lld|%016llx|%d|%ld|%.9g|%.9g|%ld|%ld|%d|%d|%d|%d|%d|%d|", (int)aborted, info, (unsigned long long)digest, expansions, expand_allocs, (double)for_lu, (double)total_needed, implied_lo, implied_hi,
                   (int)canary_ok, (int)structure_ok, (int)leak, multi + 1000 * grew, (int)identity_ok, (int)degenerate) + clean(abort_msg) + "|" + clean(canary_msg) + "|" + clean(structure_oracle) + "|" + clean(structure_msg) + "|" + clean(leak_msg) + "|" + clean(identity_oracle) + "|" + clean(identity_msg) + "|";
    }
    bool parse(const std::string &s) {
        std::vector<std::string> f; std::string cur; for (char ch : s) { if (ch == '|') { f.push_back(cur); cur.clear(); } else cur += ch; }
        if (f.size() < 22) return false;
        aborted = atoi(f[0].c_str()); info = atoll(f[1].c_str()); digest = strtoull(f[2].c_str(), nullptr, 16); expansions = atoi(f[3].c_str()); expand_allocs = atol(f[4].c_str());
        for_lu = (float)atof(f[5].c_str()); total_needed = (float)atof(f[6].c_str()); implied_lo = atol(f[7].c_str()); implied_hi = atol(f[8].c_str());
        canary_ok = atoi(f[9].c_str()); structure_ok = atoi(f[10].c_str()); leak = atoi(f[11].c_str()); multi = atoi(f[12].c_str()); grew = multi / 1000; multi %= 1000; identity_ok = atoi(f[13].c_str()); degenerate = atoi(f[14].c_str());
        abort_msg = f[15]; canary_msg = f[16]; structure_oracle = f[17]; structure_msg = f[18]; leak_msg = f[19]; identity_oracle = f[20]; identity_msg = f[21];
        return true;
    }
};

template <class T> struct FactorProblem {
    int m = 0, n = 0; Comp<T> S; Opts o; bool ilu = false; IluOpts io; bool stress = false;
};

// Workspace inside a larger buffer: [guard | work (lwork bytes) | guard], guards poisoned for ASan and filled with canaries.
struct GuardedWork {
    std::vector<unsigned char> buf; unsigned char *work = nullptr; long lwork = 0; static const long G = 256;
    void make(long lw, int misalign, unsigned char fillb) {
        lwork = lw; buf.assign((size_t)(lw + 2 * G + 16), 0xC7);
        uintptr_t base = (uintptr_t)buf.data() + G; base = (base + 7) & ~(uintptr_t)7; base += (uintptr_t)misalign;
        work = (unsigned char *)base; std::memset(work, fillb, (size_t)lw);
#ifdef VF_HAVE_ASAN
        __asan_poison_memory_region(buf.data(), (size_t)(work - buf.data()));
        __asan_poison_memory_region(work + lw, (size_t)(buf.data() + buf.size() - (work + lw)));
#endif
    }
    bool check(std::string &msg) {
#ifdef VF_HAVE_ASAN
        __asan_unpoison_memory_region(buf.data(), buf.size());
#endif
        for (unsigned char *p = buf.data(); p < work; ++p) if (*p != 0xC7) { msg = fmt("byte %ld before the workspace was overwritten", (long)(work - p)); return false; }
        for (unsigned char *p = work + lwork; p < buf.data() + buf.size(); ++p) if (*p != 0xC7) { msg = fmt("byte %ld past the end of the workspace (lwork=%ld) was overwritten", (long)(p - (work + lwork)), lwork); return false; }
        return true;
    }
    void release() {
#ifdef VF_HAVE_ASAN
        if (!buf.empty()) __asan_unpoison_memory_region(buf.data(), buf.size());
#endif
    }
    // check the guard zones and keep them armed (for histories of several calls into the same workspace)
    bool verify(std::string &msg) {
        bool ok = check(msg);
#ifdef VF_HAVE_ASAN
        __asan_poison_memory_region(buf.data(), (size_t)(work - buf.data()));
        __asan_poison_memory_region(work + lwork, (size_t)(buf.data() + buf.size() - (work + lwork)));
#endif
        return ok;
    }
};

inline uint64_t dig(uint64_t h, const void *p, size_t bytes) { return bytes ? fnv1a(p, bytes, h) : h; }

// Runs one factorization.  check_numeric: also verify C02 + C03 on success (needs the dense matrix).
template <class T>
inline FactorOutcome factor_once(const FactorProblem<T> &P, const StorageCfg &cfg, unsigned char heapfill, bool check_numeric, long fault_k = 0)
{
    typedef typename Wide<T>::W W;
    FactorOutcome out;
    int m = P.m, n = P.n;
    vf_case_begin(heapfill);
    Tuning t = P.o.tune; if (!t.stock) t.v[6] = cfg.fill; else { t.stock = false; t.v[0] = 0; t.v[1] = 20; t.v[2] = 10; t.v[3] = 200; t.v[4] = 200; t.v[5] = 100; t.v[6] = cfg.fill; t.v[7] = 10; }
    apply_tuning(t);
    superlu_options_t so; if (P.ilu) ilu_set_default_options(&so); else set_default_options(&so);
    apply_opts(P.o, so); so.Fact = DOFACT;
    if (P.ilu) { apply_ilu(P.io, so); so.RowPerm = NOROWPERM; }
    Comp<T> S = P.S;
    std::vector<int> perm_r(m, -1), perm_c(n, -1), etree(n, -1);
    if (P.o.colperm == MY_PERMC) perm_c = P.o.my_perm_c;
    MatView<T> A; A.create(S);
    SuperMatrix L, U, AC; std::memset(&L, 0, sizeof L); std::memset(&U, 0, sizeof U);
    SuperLUStat_t stat; StatInit(&stat); GlobalLU_t Glu; std::memset(&Glu, 0, sizeof Glu); int_t info = -999; bool have_ac = false;
    GuardedWork gw; void *work = nullptr;
    if (cfg.lwork > 0) { gw.make(cfg.lwork, cfg.misalign, cfg.workfill); work = gw.work; }
    // sticky: the k-th factor-growth allocation and every later one fail (a single refusal is retried by the
    // library with a smaller request, which is a legitimate success)
    if (fault_k > 0) vf_set_fault("expand", fault_k, 1);
    bool ab = guarded([&] {
        if (P.o.colperm != MY_PERMC) get_perm_c((int)P.o.colperm, &A.A, perm_c.data());
        sp_preorder(&so, &A.A, perm_c.data(), etree.data(), &AC); have_ac = true;
        if (P.ilu) Tr<T>::gsitrf(&so, &AC, sp_ienv(2), sp_ienv(1), etree.data(), work, (int_t)cfg.lwork, perm_c.data(), perm_r.data(), &L, &U, &Glu, &stat, &info);
        else Tr<T>::gstrf(&so, &AC, sp_ienv(2), sp_ienv(1), etree.data(), work, (int_t)cfg.lwork, perm_c.data(), perm_r.data(), &L, &U, &Glu, &stat, &info);
    }) != 0;
    vf_set_fault(nullptr, 0, 0);
    out.expand_allocs = vf_stats()->expand_allocs;
    if (ab) { out.aborted = true; out.abort_msg = vf_abort_msg(); gw.release(); vf_purge(); return out; }
    { long init = (long)((double)cfg.fill * (double)P.S.nnz()); if (P.ilu) init = -1;
      if (init >= 0 && cfg.lwork != -1) out.grew = (Glu.nzlumax > init ? 1 : 0) | (Glu.nzumax > init ? 2 : 0) | (Glu.nzlmax > init ? 4 : 0); }
    out.info = info; out.expansions = stat.expansions; out.glu_exp = Glu.num_expansions > 0 ? Glu.num_expansions - 1 : 0;
    int k = std::min(m, n);
    bool formed = info >= 0 && info <= k && cfg.lwork != -1;
    if (formed && info == 0) {
        FactorShape fs; Ctx tmp;
        if (!is_perm(perm_r.data(), m) || !is_perm(perm_c.data(), n)) { out.structure_ok = false; out.structure_oracle = "perm"; out.structure_msg = "perm_r or perm_c is not a bijection"; }
        else if (!check_structure<T>(tmp, &L, &U, m, k, P.ilu, fs)) { out.structure_ok = false; out.structure_oracle = tmp.oracle; out.structure_msg = tmp.msg; }
        else {
            out.multi = fs.multi;
            const SCformat *Ls = (const SCformat *)L.Store; const NCformat *Us = (const NCformat *)U.Store;
            uint64_t h = 1469598103934665603ULL;
            h = dig(h, perm_r.data(), sizeof(int) * (size_t)m); h = dig(h, perm_c.data(), sizeof(int) * (size_t)n);
            h = dig(h, &Ls->nsuper, sizeof Ls->nsuper); h = dig(h, &Ls->nnz, sizeof Ls->nnz); h = dig(h, &Us->nnz, sizeof Us->nnz);
            h = dig(h, Ls->sup_to_col, sizeof(int) * (size_t)(Ls->nsuper + 2)); h = dig(h, Ls->col_to_sup, sizeof(int) * (size_t)k);
            h = dig(h, Ls->rowind_colptr, sizeof(int_t) * (size_t)(k + 1)); h = dig(h, Ls->rowind, sizeof(int_t) * (size_t)Ls->rowind_colptr[k]);
            h = dig(h, Ls->nzval_colptr, sizeof(int_t) * (size_t)(k + 1)); h = dig(h, Ls->nzval, sizeof(T) * (size_t)Ls->nzval_colptr[k]);
            h = dig(h, Us->colptr, sizeof(int_t) * (size_t)(k + 1)); h = dig(h, Us->rowind, sizeof(int_t) * (size_t)Us->colptr[k]); h = dig(h, Us->nzval, sizeof(T) * (size_t)Us->colptr[k]);
            out.digest = h;
            out.implied_lo = (long)(sizeof(T) * (size_t)Ls->nzval_colptr[k] + sizeof(int_t) * (size_t)Ls->rowind_colptr[k] + (sizeof(T) + sizeof(int_t)) * (size_t)Us->colptr[k]);
            out.implied_hi = out.implied_lo + (long)(sizeof(int) * 2 * (size_t)(k + 1) + sizeof(int_t) * 3 * (size_t)(k + 1));
            mem_usage_t mu; mu.for_lu = mu.total_needed = 0;
            if (P.ilu) Tr<T>::ilu_QuerySpace(&L, &U, &mu); else Tr<T>::QuerySpace(&L, &U, &mu);
            out.for_lu = mu.for_lu; out.total_needed = mu.total_needed;
            if (check_numeric && !P.ilu) {
                Dense<W> AA = dense_of(P.S); LUDecoded<T> dec; Ctx t2;
                if (!check_lu<T>(t2, AA, perm_r.data(), perm_c.data(), &L, &U, P.o.u, true, false, dec)) { out.identity_ok = false; out.identity_oracle = t2.oracle; out.identity_msg = t2.msg; }
                out.degenerate = dec.degenerate;
            }
        }
    }
    if (cfg.lwork > 0) { std::string msg; if (!gw.check(msg)) { out.canary_ok = false; out.canary_msg = msg; } }
    // Inside the workspace the factor arrays grow from the head and the work arrays sit at the tail (GlobalLU_t::stack, a
    // public structure): the head must have stayed clear of the work arrays it coexisted with.
    // (also after a shortage met during the column loop, i.e. once the initial allocation had succeeded: num_expansions >= 1)
    if (cfg.lwork > 0 && (formed || (info > k && Glu.num_expansions >= 1)) && out.canary_ok) {
        long panel = sp_ienv(1), maxsuper = std::max(sp_ienv(3), sp_ienv(7)), rowblk = sp_ienv(4);
        long tail = (2 * panel + 2 + 3) * (long)m * (long)sizeof(int) + ((long)m * panel + std::max<long>(m, (maxsuper + rowblk) * panel)) * (long)sizeof(T);
        if ((long)Glu.stack.top1 + tail > (long)Glu.stack.size) {
            out.canary_ok = false; out.stack_overlap = true;
            out.canary_msg = fmt("head of the workspace stack (top1=%ld) ran into the work arrays (%ld bytes at the tail of %ld)", (long)Glu.stack.top1, tail, (long)Glu.stack.size);
        }
    }
    // the caller's side of the documented protocol
    if (formed) {
        if (cfg.lwork > 0) { Destroy_SuperMatrix_Store(&L); Destroy_SuperMatrix_Store(&U); }
        else { Destroy_SuperNode_Matrix(&L); Destroy_CompCol_Matrix(&U); }
    }
    if (have_ac) Destroy_CompCol_Permuted(&AC);
    A.destroy(); StatFree(&stat);
    gw.release();
    const vf_stats_t *vs = vf_stats();
    long live = vf_live_blocks();
    if (vs->bad_frees) { out.leak = true; out.leak_msg = fmt("%ld free(s) of a pointer that is not a live block", vs->bad_frees); }
    else if (live) { char b[300]; vf_describe_live(b, sizeof b, 8); out.leak = true; out.leak_msg = fmt("%ld block(s) still allocated after the caller destroyed its objects (info=%lld): %s", live, out.info, b); }
    vf_purge();
    return out;
}

// Fork isolation is only needed while a crash or hang is an *expected* outcome class (a known finding about caller workspaces
// being open); otherwise the run is inline - a crash then ends the worker and is reported by the driver, a hang by its watchdog.
inline bool &vf_nofork_flag() { static bool v = getenv("VF_NOFORK") != nullptr; return v; }
inline bool vf_nofork() { return vf_nofork_flag(); }

// Same, in a forked child with a watchdog (a caller workspace can make the library hang or crash: finding F04).
template <class T>
inline IsoResult factor_isolated(const FactorProblem<T> &P, const StorageCfg &cfg, unsigned char heapfill, bool check_numeric, FactorOutcome &out, unsigned timeout_s = 10, long fault_k = 0)
{
    if (vf_nofork()) { out = factor_once<T>(P, cfg, heapfill, check_numeric, fault_k); return IsoResult(); }
    Ctx carrier;
    IsoResult r = run_isolated(carrier, [&](Ctx &cc) { FactorOutcome o = factor_once<T>(P, cfg, heapfill, check_numeric, fault_k); cc.label("O=" + o.serialize()); }, timeout_s);
    if (r.status == IsoResult::OK) { bool got = false; for (auto &l : carrier.labels) if (l.rfind("O=", 0) == 0) got = out.parse(l.substr(2)); if (!got) { r.status = IsoResult::CRASH; r.detail = -1; } }
    return r;
}

template <class T> inline FactorProblem<T> gen_factor_problem(Choice &c, Ctx &cx, int tier, bool allow_ilu, bool allow_tall, GMat *Gout = nullptr, int cap_quick = 14)
{
    typedef typename Tr<T>::R R;
    const bool cplx = Tr<T>::is_complex, single = sizeof(R) == 4;
    FactorProblem<T> P;
    int n = gen_size(c, tier, cap_quick, 40); int m = n;
    if (allow_tall) { static const unsigned w[] = {12, 2, 1, 1}; m = n + (int)c.weighted(w); }
    P.ilu = allow_ilu && c.chance(70);
    if (P.ilu) m = n;
    std::string family;
    bool stress = !P.ilu && c.chance(64);
    GMat G; int tailk = 0;
    if (stress) {
        // fill-heavy: a dense leading row and column block with a dominant diagonal, natural ordering, tiny supernodes.  The part of U
        // outside the supernodes then outgrows a fill estimate of 1..2 times nnz(A), so UCOL/USUB (and LSUB) must grow during
        // the factorization - something small random matrices almost never do.
        if (n < 6) n = 6 + (int)c.below(7); m = n;
        int k = 1 + (int)c.below(2);
        std::vector<std::vector<int>> pat(n);
        for (int j = 0; j < n; ++j) for (int i = 0; i < n; ++i) if (i == j || i < k || j < k || (c.chance(24))) pat[j].push_back(i);
        family = "fill-heavy-arrow";
        // variant: an independent bidiagonal chain of kt columns appended as the last diagonal block.  With relax >= kt it is a
        // multi-column relaxed supernode that is factored last, after U already holds entries (the subscripts of such a
        // supernode are stored twice, which is one more place where the L subscript array has to grow).
        tailk = c.chance(90) ? 2 + (int)c.below(5) : 0;
        if (tailk) {
            int n0 = n; n += tailk; m = n; pat.resize(n);
            for (int j = n0; j < n; ++j) { pat[j].push_back(j); if (j + 1 < n) pat[j].push_back(j + 1); }
            family = "fill-heavy-arrow+tail-chain";
        }
        G = gen_values(c, m, n, pat, cplx, single, family, false);
        for (int j = 0; j < n; ++j) { double s = 1; for (auto &e : G.col[j]) if (e.first != j) s += std::fabs(e.second.re) + std::fabs(e.second.im); for (auto &e : G.col[j]) if (e.first == j) { e.second.re = 4 * s; e.second.im = 0; } }
        G.vkind += "+dominant";
    } else {
        auto pat = gen_pattern(c, m, n, PAT_NONSING, family);
        G = gen_values(c, m, n, pat, cplx, single, family);
    }
    P.o = gen_opts(c, n, single, m == n, false); P.o.nr = false;
    if (stress) { P.o.colperm = NATURAL; P.o.symmetric = false; P.o.tune.stock = false; P.o.tune.v[0] = 0; P.o.tune.v[1] = 1 + (int)c.below(3); P.o.tune.v[2] = 1; P.o.tune.v[3] = 1 + (int)c.below(2); P.o.tune.v[4] = 1 + (int)c.below(4); P.o.tune.v[5] = 1 + (int)c.below(4); P.o.tune.v[6] = 1; P.o.tune.v[7] = 2; cx.label("stress=fill-heavy"); P.stress = true;
                  if (tailk) { P.o.tune.v[2] = tailk + (int)c.below(3); P.o.tune.v[3] = std::max(P.o.tune.v[3], P.o.tune.v[2]); cx.label("stress=tail-relaxed"); } }
    if (P.ilu) { P.io = gen_ilu_opts(c); route_ilu(P.io, cx); }
    P.m = m; P.n = n;
    P.S = to_comp<T>(G, false, P.o.shuffle_rows ? &c : nullptr);
    if (Gout) *Gout = G;
    return P;
}

}  // namespace vf
