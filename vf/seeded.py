#!/usr/bin/env python3
"""Confirm and archive an independently written breaking change, and run the checks against it.

  python3 vf/seeded.py import <scratch-worktree> <name> <property> [<check> ...]
      - verifies in the scratch worktree: patch applies to a clean tree, the library builds, the 24 baseline tests pass with the
        patch, the demonstration fails with the patch and passes without it;
      - copies patch.diff, the demonstration and the author's notes to /verif/seeded/<name>/;
      - applies the patch to /repo (git apply), runs the quick tier of the named checks (default: the property's own) with
        evidence/replays redirected to a scratch directory, and undoes the patch (git checkout -- .);
      - writes meta.json (what it breaks, what it needs, what was run, which checks caught it).
  python3 vf/seeded.py run <name> [<check> ...]     re-run the checks against an archived change
"""
import os, sys, json, subprocess, shutil, time

VERIF = os.path.dirname(os.path.dirname(os.path.abspath(__file__)))
SEEDED = os.path.join(VERIF, "seeded")


def sh(cmd, cwd=None, env=None, timeout=3600):
    r = subprocess.run(cmd, shell=True, capture_output=True, text=True, cwd=cwd, env=env, timeout=timeout)
    return r.returncode, (r.stdout + r.stderr)


def run_checks(patch, checks, tier="quick", worktree=None):
    """worktree=None: apply the patch to /repo, run, undo (the documented way).  worktree=<dir with the patch applied>: point
    the build at that tree instead (VF_REPO), leaving /repo alone - used while a background run is reading /repo."""
    out = {}
    if worktree:
        for c in checks:
            t0 = time.time()
            env = dict(os.environ, VF_REPO=worktree, VF_EVIDENCE_DIR="/tmp/vf_seed_ev", VF_REPLAYS_DIR="/tmp/vf_seed_ev/replays")
            r = subprocess.run([os.path.join(VERIF, "check"), c, "--tier", tier], capture_output=True, text=True, env=env, cwd=VERIF)
            caught = r.returncode == 1 and "VIOLATION" in r.stdout
            first = [l.strip() for l in r.stdout.splitlines() if l.strip().startswith("oracle=")][:2]
            summary = [l for l in r.stdout.splitlines() if " tier=" in l][-1:] or [""]
            out[c] = dict(caught=caught, rc=r.returncode, seconds=round(time.time() - t0, 1), first_violations=[f[:300] for f in first], summary=summary[0][:200], via="VF_REPO=" + worktree)
            print("  %s: %s (%.0fs) %s" % (c, "CAUGHT" if caught else "missed (rc=%d)" % r.returncode, time.time() - t0, first[0][:160] if first else ""), flush=True)
        shutil.rmtree("/tmp/vf_seed_ev", ignore_errors=True)
        return out
    rc, o = sh("git -C /repo status --porcelain --untracked-files=no")
    if o.strip():
        raise SystemExit("/repo has uncommitted changes to tracked files; refusing to apply a seeded patch")
    rc, o = sh("git -C /repo apply %s" % patch)
    if rc:
        raise SystemExit("patch does not apply to /repo: " + o)
    try:
        for c in checks:
            t0 = time.time()
            env = dict(os.environ, VF_EVIDENCE_DIR="/tmp/vf_seed_ev", VF_REPLAYS_DIR="/tmp/vf_seed_ev/replays")
            r = subprocess.run([os.path.join(VERIF, "check"), c, "--tier", tier], capture_output=True, text=True, env=env, cwd=VERIF)
            caught = r.returncode == 1 and "VIOLATION" in r.stdout
            first = [l.strip() for l in r.stdout.splitlines() if l.strip().startswith("oracle=")][:2]
            summary = [l for l in r.stdout.splitlines() if " tier=" in l][-1:] or [""]
            out[c] = dict(caught=caught, rc=r.returncode, seconds=round(time.time() - t0, 1), first_violations=[f[:300] for f in first], summary=summary[0][:200])
            print("  %s: %s (%.0fs) %s" % (c, "CAUGHT" if caught else "missed (rc=%d)" % r.returncode, time.time() - t0, first[0][:160] if first else ""), flush=True)
    finally:
        sh("git -C /repo checkout -- .")
        shutil.rmtree("/tmp/vf_seed_ev", ignore_errors=True)
    return out


def main():
    if len(sys.argv) < 3:
        print(__doc__); return 2
    mode = sys.argv[1]
    if mode == "run":
        name = sys.argv[2]; d = os.path.join(SEEDED, name)
        meta = json.load(open(os.path.join(d, "meta.json")))
        checks = sys.argv[3:] or [meta["property"]]
        if os.environ.get("VF_SEED_VIA_WORKTREE"):   # leave /repo alone: temporary worktree of HEAD with the patch applied
            wt = "/tmp/vf_seedwt"
            sh("git -C /repo worktree remove --force %s" % wt); shutil.rmtree(wt, ignore_errors=True)
            rc, o = sh("git -C /repo worktree add --detach %s HEAD" % wt)
            if rc: raise SystemExit(o)
            shutil.copy("/repo/SRC/superlu_config.h", os.path.join(wt, "SRC/superlu_config.h"))
            rc, o = sh("git apply %s" % os.path.join(d, "patch.diff"), cwd=wt)
            if rc: sh("git -C /repo worktree remove --force %s" % wt); raise SystemExit("patch does not apply to HEAD: " + o)
            try: res = run_checks(os.path.join(d, "patch.diff"), checks, worktree=wt)
            finally: sh("git -C /repo worktree remove --force %s" % wt); shutil.rmtree(wt, ignore_errors=True)
        else:
            res = run_checks(os.path.join(d, "patch.diff"), checks)
        meta.setdefault("checks", {}).update(res); meta["checked_at_repo_commit"] = sh("git -C /repo rev-parse --short HEAD")[1].strip()
        json.dump(meta, open(os.path.join(d, "meta.json"), "w"), indent=1)
        return 0
    wt, name, prop = sys.argv[2], sys.argv[3], sys.argv[4]
    checks = sys.argv[5:] or [prop]
    demo = os.path.join(wt, "demo")
    patch = os.path.join(demo, "patch.diff")
    ran = []
    # 1. the patch as delivered is what is in the working tree
    rc, cur = sh("git diff -- SRC CBLAS FORTRAN", cwd=wt)
    if not os.path.exists(patch) or not open(patch).read().strip():
        open(patch, "w").write(cur)
    # 2. baseline suite with the patch
    rc, o = sh("cmake -S . -B _build -G Ninja -DCMAKE_BUILD_TYPE=Release >/dev/null; cmake --build _build 2>&1 | tail -1; ctest --test-dir _build -j8 2>&1 | tail -3", cwd=wt)
    ok_suite = "100% tests passed" in o
    ran.append("with patch: cmake --build && ctest -> " + ("24/24 pass" if ok_suite else "FAILS: " + o[-300:]))
    # 3. demonstration with / without the patch
    rc, o1 = sh("bash demo/build.sh >/dev/null 2>&1; ./demo/demo; echo EXIT=$?", cwd=wt)
    fails_with = "EXIT=0" not in o1
    # (no git stash: the stash is shared between all worktrees of a repository)
    sh("git diff -- SRC CBLAS FORTRAN > /tmp/vf_seed_cur.diff; git apply -R /tmp/vf_seed_cur.diff", cwd=wt)
    rc, o = sh("cmake --build _build 2>&1 | tail -1; bash demo/build.sh >/dev/null 2>&1; ./demo/demo; echo EXIT=$?", cwd=wt)
    passes_without = "EXIT=0" in o
    sh("git apply /tmp/vf_seed_cur.diff; rm -f /tmp/vf_seed_cur.diff", cwd=wt)
    ran.append("demo with patch -> %s; demo without patch -> %s" % ("fails" if fails_with else "PASSES (unexpected)", "passes" if passes_without else "FAILS (unexpected)"))
    print("suite with patch: %s; demo with patch fails: %s; demo without patch passes: %s" % (ok_suite, fails_with, passes_without))
    if not (ok_suite and fails_with and passes_without):
        print("NOT KEPT: the change does not meet the requirements"); print(o1[-500:]); print(o[-500:]); return 1
    d = os.path.join(SEEDED, name); os.makedirs(d, exist_ok=True)
    shutil.copy(patch, os.path.join(d, "patch.diff"))
    for f in os.listdir(demo):
        p = os.path.join(demo, f)
        if os.path.isfile(p) and f != "patch.diff" and os.path.getsize(p) < 200000 and not f.startswith("demo.") or f in ("demo.c", "build.sh", "NOTES.md"):
            if os.path.isfile(p) and os.path.getsize(p) < 200000 and (f.endswith((".c", ".sh", ".md", ".txt", ".h", ".cpp")) or f in ("demo.c", "build.sh", "NOTES.md")):
                shutil.copy(p, os.path.join(d, f))
    notes = ""
    if os.path.exists(os.path.join(demo, "NOTES.md")):
        notes = open(os.path.join(demo, "NOTES.md")).read()
    res = run_checks(os.path.join(d, "patch.diff"), checks, worktree=wt if os.environ.get("VF_SEED_VIA_WORKTREE") else None)
    meta = dict(name=name, property=prop, breaks="see NOTES.md (author's description)", needs_to_manifest="see NOTES.md", author="independent sub-agent given only the property text and a scratch worktree",
                confirmed=ran, checks=res, checked_at_repo_commit=sh("git -C /repo rev-parse --short HEAD")[1].strip(),
                how_checked="git -C /repo apply seeded/%s/patch.diff; ./check <id> --tier quick (evidence redirected); git -C /repo checkout -- ." % name)
    json.dump(meta, open(os.path.join(d, "meta.json"), "w"), indent=1)
    print("archived in", d)
    return 0


if __name__ == "__main__":
    sys.exit(main())
