"""Content-addressed incremental build of /repo's SuperLU sources and of the
harness, for the configurations described in DESIGN.md section 2.3.

Nothing here patches /repo: instrumentation goes through USER_MALLOC /
USER_FREE / USER_ABORT (documented in SRC/slu_util.h) and a replacement
sp_ienv() (documented tuning interface)."""
import hashlib, os, subprocess, sys, glob, shutil, time
from concurrent.futures import ThreadPoolExecutor

REPO = os.environ.get("VF_REPO", "/repo")
VERIF = os.path.dirname(os.path.dirname(os.path.abspath(__file__)))
HARNESS = os.path.join(VERIF, "harness")
BUILD = os.environ.get("VF_BUILD", os.path.join(VERIF, "build"))
JOBS = int(os.environ.get("VF_JOBS", "16"))

HOOK_DEFS = [
    "-include", os.path.join(HARNESS, "vf_hooks.h"),
    "-DUSER_MALLOC(size)=vf_malloc_at(size,__func__)",
    "-DUSER_FREE(p)=vf_free(p)",
    "-DUSER_ABORT(m)=vf_abort(m)",
    "-Dexit=vf_exit",
]

SAN_ASAN = ["-fsanitize=address,undefined", "-fno-sanitize-recover=undefined", "-fno-omit-frame-pointer"]
SAN_TSAN = ["-fsanitize=thread", "-fno-omit-frame-pointer"]

CONFIGS = {
    # tag: dict(cc, cxx, cflags (library), hflags (harness), ldflags, blas, i64)
    "asan": dict(cc="clang", cxx="clang++", san=SAN_ASAN, opt=["-O1", "-gline-tables-only"], vendor=False, i64=False, fuzz=False),
    "asan-vb": dict(cc="clang", cxx="clang++", san=SAN_ASAN, opt=["-O1", "-gline-tables-only"], vendor=True, i64=False, fuzz=False),
    "asan-i64": dict(cc="clang", cxx="clang++", san=SAN_ASAN, opt=["-O1", "-gline-tables-only"], vendor=False, i64=True, fuzz=False),
    "tsan": dict(cc="clang", cxx="clang++", san=SAN_TSAN, opt=["-O1", "-gline-tables-only"], vendor=False, i64=False, fuzz=False),
    "fuzz": dict(cc="clang", cxx="clang++", san=SAN_ASAN, opt=["-O1", "-gline-tables-only"], vendor=False, i64=False, fuzz=True),
    "plain": dict(cc="gcc", cxx="g++", san=[], opt=["-O1", "-g"], vendor=False, i64=False, fuzz=False),
}


def sha(*parts):
    h = hashlib.sha256()
    for p in parts:
        if isinstance(p, str):
            p = p.encode()
        h.update(p)
        h.update(b"\0")
    return h.hexdigest()[:32]


def file_bytes(path):
    with open(path, "rb") as f:
        return f.read()


def headers_digest(dirs):
    h = hashlib.sha256()
    for d in dirs:
        for p in sorted(glob.glob(os.path.join(d, "*.h")) + glob.glob(os.path.join(d, "*.hpp"))):
            h.update(os.path.basename(p).encode())
            h.update(file_bytes(p))
    return h.hexdigest()


class BuildError(Exception):
    pass


def _compile(cmd, src, out):
    tmp = out + ".tmp%d" % os.getpid()
    r = subprocess.run(cmd + ["-c", src, "-o", tmp], capture_output=True, text=True)
    if r.returncode != 0:
        try:
            os.unlink(tmp)
        except OSError:
            pass
        raise BuildError("compile failed: %s\n%s" % (" ".join(cmd + ["-c", src]), r.stderr[-4000:]))
    os.replace(tmp, out)


def compile_many(jobs):
    """jobs: list of (cmd, src, keyparts) -> list of object paths (content addressed)."""
    objdir = os.path.join(BUILD, "obj")
    os.makedirs(objdir, exist_ok=True)
    outs = []
    todo = []
    for cmd, src, extra in jobs:
        key = sha(" ".join(cmd), file_bytes(src), extra)
        out = os.path.join(objdir, key + ".o")
        outs.append(out)
        if not os.path.exists(out):
            todo.append((cmd, src, out))
        else:
            try:
                os.utime(out)
            except OSError:
                pass
    if todo:
        with ThreadPoolExecutor(max_workers=JOBS) as ex:
            futs = [ex.submit(_compile, *t) for t in todo]
            for f in futs:
                f.result()
    return outs, len(todo)


def lib_flags(cfg):
    c = CONFIGS[cfg]
    fl = list(c["opt"]) + list(c["san"]) + ["-I" + os.path.join(REPO, "SRC"), "-idirafter", os.path.join(HARNESS, "fallback"), "-w"] + HOOK_DEFS
    if c["cc"] == "clang":
        fl += ["-Wno-everything"]
    if c["fuzz"]:
        fl += ["-fsanitize=fuzzer-no-link"]
    if c["i64"]:
        fl += ["-DXSDK_INDEX_SIZE=64"]
    if c["vendor"]:
        fl += ["-DUSE_VENDOR_BLAS"]
    return fl


def build_library(cfg):
    """Compile SRC (minus sp_ienv.c, which is built as sp_ienv_stock), CBLAS
    (unless vendor BLAS) and the FORTRAN bridge.  Returns (archive path, n compiled)."""
    c = CONFIGS[cfg]
    fl = lib_flags(cfg)
    src_dir = os.path.join(REPO, "SRC")
    hd = headers_digest([src_dir, os.path.join(REPO, "CBLAS")]) + sha(file_bytes(os.path.join(HARNESS, "vf_hooks.h")))
    jobs = []
    for p in sorted(glob.glob(os.path.join(src_dir, "*.c"))):
        cmd = [c["cc"]] + fl
        if os.path.basename(p) == "sp_ienv.c":
            cmd = cmd + ["-Dsp_ienv=sp_ienv_stock"]
        jobs.append((cmd, p, hd))
    for p in sorted(glob.glob(os.path.join(REPO, "FORTRAN", "c_fortran_*.c"))) + sorted(glob.glob(os.path.join(REPO, "EXAMPLE", "dreadtriple_noheader.c"))):
        jobs.append(([c["cc"]] + fl, p, hd))
    if not c["vendor"]:
        cfl = list(c["opt"]) + list(c["san"]) + ["-w", "-I" + os.path.join(REPO, "CBLAS")]
        if c["cc"] == "clang":
            cfl += ["-Wno-everything"]
        if c["fuzz"]:
            cfl += ["-fsanitize=fuzzer-no-link"]
        for p in sorted(glob.glob(os.path.join(REPO, "CBLAS", "*.c"))):
            jobs.append(([c["cc"]] + cfl, p, hd))
    # ledger + tuning (C, same sanitizer)
    hfl = list(c["opt"]) + list(c["san"]) + ["-I" + HARNESS, "-I" + src_dir, "-idirafter", os.path.join(HARNESS, "fallback")]
    hh = headers_digest([HARNESS])
    for name in ("ledger.c", "tuning.c"):
        jobs.append(([c["cc"]] + hfl, os.path.join(HARNESS, name), hh))
    objs, ncomp = compile_many(jobs)
    akey = sha(*objs)
    adir = os.path.join(BUILD, "lib")
    os.makedirs(adir, exist_ok=True)
    arch = os.path.join(adir, "libslu_%s_%s.a" % (cfg, akey))
    if not os.path.exists(arch):
        tmp = arch + ".tmp%d" % os.getpid()
        if os.path.exists(tmp):
            os.unlink(tmp)
        r = subprocess.run(["ar", "rcs", tmp] + objs, capture_output=True, text=True)
        if r.returncode != 0:
            raise BuildError("ar failed: " + r.stderr)
        os.replace(tmp, arch)
        # remove stale archives of this configuration
        for old in glob.glob(os.path.join(adir, "libslu_%s_*.a" % cfg)):
            if old != arch and time.time() - os.path.getmtime(old) > 3600:
                try:
                    os.unlink(old)
                except OSError:
                    pass
    return arch, ncomp


def harness_flags(cfg):
    c = CONFIGS[cfg]
    fl = ["-std=gnu++17"] + list(c["opt"]) + list(c["san"]) + (["-fno-sanitize=enum"] if c["san"] and "thread" not in c["san"][0] else []) + (["-fsanitize=fuzzer-no-link"] if c["fuzz"] else []) + [
        "-I" + HARNESS, "-I" + os.path.join(REPO, "SRC"), "-idirafter", os.path.join(HARNESS, "fallback"), "-Wall", "-Wno-unused-function", "-Wno-unused-variable",
        "-Wno-unused-but-set-variable", "-Wno-sign-compare"]
    if c["i64"]:
        fl += ["-DXSDK_INDEX_SIZE=64"]
    if c["vendor"]:
        fl += ["-DVF_VENDOR_BLAS"]
    return fl


def build_binary(cfg, prop, front="rc"):
    """Build harness binary for property `prop` (e.g. 'C02') with front end
    'rc' (rapidcheck + replay + batch) or 'fuzz' (libFuzzer)."""
    c = CONFIGS[cfg]
    arch, ncomp = build_library(cfg)
    fl = harness_flags(cfg)
    hd = headers_digest([HARNESS, os.path.join(REPO, "SRC")])
    srcs = [os.path.join(HARNESS, "prop_%s.cpp" % prop)]
    if front == "rc":
        srcs.append(os.path.join(HARNESS, "main_rc.cpp"))
    else:
        srcs.append(os.path.join(HARNESS, "main_fuzz.cpp"))
    jobs = []
    for s in srcs:
        cmd = [c["cxx"]] + fl
        if front == "fuzz" and s.endswith("main_fuzz.cpp"):
            pass
        jobs.append((cmd, s, hd))
    objs, n2 = compile_many(jobs)
    bkey = sha(arch, *objs, front)
    bdir = os.path.join(BUILD, "bin")
    os.makedirs(bdir, exist_ok=True)
    out = os.path.join(bdir, "%s_%s_%s_%s" % (prop, cfg, front, bkey))
    if not os.path.exists(out):
        ld = [c["cxx"]] + list(c["san"]) + objs + [arch]
        if front == "rc":
            ld += ["-lrapidcheck"]
        else:
            ld += ["-fsanitize=fuzzer"]
        if c["vendor"]:
            ld += ["-lopenblas"]
        ld += ["-lm", "-lpthread"]
        tmp = out + ".tmp%d" % os.getpid()
        r = subprocess.run(ld + ["-o", tmp], capture_output=True, text=True)
        if r.returncode != 0:
            raise BuildError("link failed: %s\n%s" % (" ".join(ld), r.stderr[-4000:]))
        os.replace(tmp, out)
        for old in glob.glob(os.path.join(bdir, "%s_%s_%s_*" % (prop, cfg, front))):
            if old != out and time.time() - os.path.getmtime(old) > 3600:
                try:
                    os.unlink(old)
                except OSError:
                    pass
    return out, ncomp + n2


def prune_cache(max_age_days=3):
    objdir = os.path.join(BUILD, "obj")
    now = time.time()
    n = 0
    for p in glob.glob(os.path.join(objdir, "*.o")):
        if now - os.path.getmtime(p) > max_age_days * 86400:
            try:
                os.unlink(p); n += 1
            except OSError:
                pass
    return n
