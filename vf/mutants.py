#!/usr/bin/env python3
"""Sensitivity validation (DESIGN.md section 7): apply deliberate breaks of a property to a scratch
worktree of /repo (never to /repo itself), run the quick tier of the named checks against it, record
caught / missed.  Usage:  python3 vf/mutants.py [--only ID,...] [--baseline] [--jobs N]
Scratch worktree: /tmp/vf_mut (removed at the end).  Results: /verif/mutants_results.json"""
import os, sys, json, subprocess, shutil, time, re

VERIF = os.path.dirname(os.path.dirname(os.path.abspath(__file__)))
WT = "/tmp/vf_mut"

# (id, file, old, new, [properties expected to catch], note).  `old` must occur exactly once unless count given.
M = [
 ("M01", "SRC/dpanel_bmod.c", "for (i = 0; i < block_nrow; i++) {\n\t\t\tirow = lsub[isub];\n\t\t\tdense_col[irow] -= MatvecTmp[i];", "for (i = 0; i < block_nrow - (block_nrow > 2); i++) {\n\t\t\tirow = lsub[isub];\n\t\t\tdense_col[irow] -= MatvecTmp[i];", ["C01", "C02"], "2-D blocked update drops the last row of a block (never reached by the suite's 200/100 block sizes)"),
 ("M02", "SRC/dpivotL.c", "thresh = u * pivmax;", "thresh = pivmax;", ["C02"], "threshold ignored: diagonal no longer preferred for u < 1"),
 ("M03", "SRC/dpivotL.c", "if ( rtemp != 0.0 && rtemp >= thresh ) pivptr = diag;", "if ( rtemp != 0.0 && rtemp > thresh ) pivptr = diag;", ["C02"], "tie at the threshold decided the wrong way (needs exact arithmetic)"),
 ("M04", "SRC/zgstrs.c", None, None, ["C05", "C14"], "placeholder"),
 ("M05", "SRC/util.c", "\t    *nnzU += j - fsupc + 1;\n\t    jlen--;\n\t}\n#if ( DEBUGlevel>=1 )", "\t    *nnzU += j - fsupc;\n\t    jlen--;\n\t}\n#if ( DEBUGlevel>=1 )", ["C03"], "countnz miscounts U"),
 ("M06", "SRC/dcolumn_dfs.c", "if ( (nextl-jptr != jptr-jm1ptr-1) ) jsuper = SLU_EMPTY;", "if ( (nextl-jptr < jptr-jm1ptr-1) ) jsuper = SLU_EMPTY;", ["C02", "C03", "C01"], "supernode subset test weakened"),
 ("M07", "SRC/dpivotL.c", "if ( pivmax == 0.0 ) {", "if ( pivmax < 1e-10 ) {", ["C04"], "tiny pivots reported as exact singularity"),
 ("M08", "SRC/dgssv.c", "    if ( *info == 0 ) {\n        t = SuperLU_timer_();", "    if ( *info >= 0 ) {\n        t = SuperLU_timer_();", ["C04"], "solve attempted on a singular factorization"),
 ("M09", "SRC/dgssvx.c", "\t        for (j = 0; j < nrhs; ++j)\n\t\t    for (i = 0; i < A->nrow; ++i)\n                        Xmat[i + j*ldx] *= C[i];", "\t        for (j = 0; j < nrhs; ++j)\n\t\t    for (i = 0; i < A->nrow; ++i)\n                        Xmat[i + j*ldx] *= R[i];", ["C05", "C06"], "X unscaled with R instead of C"),
 ("M10", "SRC/zsp_blas2.c", "\t\t    temp2.i = -Aval[i].i;  /* conjugation */", "\t\t    temp2.i = Aval[i].i;  /* conjugation */", ["C14"], "conjugation dropped in sp_zgemv('C')"),
 ("M11", "SRC/dpivotL.c", "if ( rtemp != 0.0 && rtemp >= thresh )\n\t    pivptr = old_pivptr;\n\telse\n\t    *usepr = 0;", "if ( rtemp != 0.0 )\n\t    pivptr = old_pivptr;\n\telse\n\t    *usepr = 0;", ["C06"], "remembered pivot kept although it fails the threshold"),
 ("M12", "SRC/dmemory.c", "\t\tuser_bcopy(expanders[type+1].mem, new_mem, bytes_to_copy);", "\t\tuser_bcopy(expanders[type+1].mem, new_mem, bytes_to_copy - 4);", ["C07", "C08"], "in-buffer expansion moves one word too few"),
 ("M13", "SRC/dmemory.c", "#define StackFull(x)         ( x + Glu->stack.used >= Glu->stack.size )", "#define StackFull(x)         ( x + Glu->stack.used > Glu->stack.size + 8 )", ["C08"], "workspace capacity test off by a few bytes"),
 ("M14", "SRC/dgscon.c", "static_placeholder", None, ["C09"], "placeholder"),
 ("M15", "SRC/sp_coletree.c", "firstcol[row] = SUPERLU_MIN(firstcol[row], col);", "firstcol[row] = SUPERLU_MAX(firstcol[row] == nc ? col : firstcol[row], col);", ["C10"], "firstcol takes the last instead of the first column"),
 ("M16", "SRC/dgsequ.c", "c[j] = SUPERLU_MAX( c[j], fabs(Aval[i]) * r[irow] );", "c[j] = SUPERLU_MAX( c[j], fabs(Aval[i]) );", ["C11", "C05"], "column maxima computed without the row scaling"),
 ("M17", "SRC/dlaqgs.c", "    if (rowcnd >= THRESH && amax >= small && amax <= large) {", "    if (rowcnd > THRESH && amax >= small && amax <= large) {", ["C11"], "threshold comparison off at equality"),
 ("M18", "SRC/dpivotgrowth.c", "\t    ++nz_in_U;", "\t    /* ++nz_in_U; */", ["C12"], "growth factor ignores the diagonal block of U"),
 ("M19", "SRC/dgscon.c", "    if (ainvnm != 0.) *rcond = (1. / ainvnm) / anorm;", "    if (ainvnm != 0.) *rcond = (1. / ainvnm);", ["C12"], "rcond not divided by the norm of A"),
 ("M20", "SRC/dgsrfs.c", "\t    for (i = 0; i < A->nrow; ++i) rwork[i] = fabs( Bptr[i] );\n\n\t    /* Compute abs(op(A))*abs(X) + abs(B). */\n\t    if ( notran ) {\n\t\tfor (k = 0; k < A->ncol; ++k) {\n\t\t    xk = fabs( Xptr[k] );", "\t    for (i = 0; i < A->nrow; ++i) rwork[i] = 0.;\n\n\t    /* Compute abs(op(A))*abs(X) + abs(B). */\n\t    if ( notran ) {\n\t\tfor (k = 0; k < A->ncol; ++k) {\n\t\t    xk = fabs( Xptr[k] );", ["C13"], "backward error denominator without |B|"),
 ("M21", "SRC/dsp_blas2.c", "placeholder_trsv", None, ["C14"], "placeholder"),
 ("M22", "SRC/ilu_dpivotL.c", "\tpivmax = fill_tol;\n\tlu_col_ptr[pivptr] = pivmax;", "\tpivmax = fill_tol;\n\tlu_col_ptr[pivptr] = -pivmax * 0.0;", ["C15"], "replaced pivot written as zero"),
 ("M23", "SRC/dgsisx.c", "\t    for (i = 0; i < nnz; ++i) rowind[i] = iperm[rowind[i]];", "\t    for (i = 0; i < nnz - 1; ++i) rowind[i] = iperm[rowind[i]];", ["C15"], "A's row indices not fully restored after MC64"),
 ("M24", "SRC/dreadhb.c", "\t    where[i++] = item - 1;", "\t    where[i++] = item - (i > 0);", ["C16"], "first integer of every vector not converted to 0-based"),
 ("M25", "SRC/dreadMM.c", "\t          row[nz] = col[nz-1];\n\t          col[nz] = row[nz-1];", "\t          row[nz] = col[nz-1];\n\t          col[nz] = col[nz-1];", ["C16"], "symmetric expansion mirrors to the wrong position"),
 ("M26", "SRC/dldperm.c", "\t    v[i] = dw[n+i];", "\t    v[i] = dw[2*n+i];", ["C17"], "column scaling copied from the wrong offset"),
 ("M27", "SRC/dldperm.c", "    for (i = 0; i < nnz; ++i) --adjncy[i];", "    for (i = 1; i < nnz; ++i) --adjncy[i];", ["C17", "C15"], "1-based shift of the row indices not fully undone"),
 ("M28", "SRC/dgstrs.c", "    else if ( ldb < SUPERLU_MAX(0, L->nrow) ||", "    else if ( ldb < SUPERLU_MAX(0, L->nrow) - 1 ||", ["C18"], "leading dimension check weakened"),
 ("M29", "SRC/dgssvx.c", "\t*info = -2;\n    else if ( options->Fact == FACTORED &&", "\t*info = -3;\n    else if ( options->Fact == FACTORED &&", ["C18"], "wrong argument position reported"),
 ("M30", "SRC/dgstrf.c", "    SUPERLU_FREE (iperm_c);\n    SUPERLU_FREE (relax_end);", "    SUPERLU_FREE (relax_end);", ["C19", "C01", "C02"], "one work array never freed"),
 ("M31", "SRC/dsnode_dfs.c", "\twhile ( new_next >= nzlmax ) {", "\twhile ( new_next > nzlmax ) {", ["C19", "C02", "C07"], "re-introduces the exact-capacity overflow fixed in fed9618"),
 ("M32", "FORTRAN/c_fortran_dgssv.c", "\tfor (i = 0; i < *nnz; ++i) rowind0[i] = rowind[i] - 1;", "\tfor (i = 0; i < *nnz; ++i) rowind0[i] = --rowind[i];", ["C20"], "bridge shifts the caller's row indices in place"),
 ("M33", "FORTRAN/c_fortran_dgssv.c", "\tSUPERLU_FREE (LUfactors->perm_c);", "\t/* SUPERLU_FREE (LUfactors->perm_c); */", ["C20"], "handle leaks perm_c"),
 ("M34", "SRC/dgstrs.c", "placeholder_gstrs", None, ["C01"], "placeholder"),
 ("M35", "SRC/sp_preorder.c", "\t        iwork[i] = post[perm_c[i]];  /* product of perm_c and post */", "\t        iwork[i] = perm_c[post[i]];  /* product of perm_c and post */", ["C10", "C01"], "postorder composed in the wrong order"),
 ("M36", "SRC/dsp_blas2.c", "    if ( !(work = doubleCalloc(L->nrow)) )\n\tABORT(\"Malloc fails for work in sp_dtrsv().\");", "    { static double swork[4096]; work = swork; memset(work, 0, sizeof(double) * L->nrow); }", ["C09"], "static scratch buffer in sp_dtrsv (also breaks the matching free)"),
 ("M37", "SRC/dmemory.c", "\t\twhile ( StackFull(extra + extra_usub) ) {", "\t\twhile ( StackFull(extra) ) {", ["C08", "C07"], "reverts half of 61b2e22: room reserved for USUB not checked against the space left (head can run into the work arrays)"),
 ("M38", "SRC/dgstrf.c", "\tSUPERLU_FREE (xplore);\n\tSUPERLU_FREE (xprune);\n\tdLUMemFree(fact, Glu);", "\tSUPERLU_FREE (xprune);\n\tdLUMemFree(fact, Glu);", ["C08", "C19", "C07"], "out-of-memory exit path forgets one work array (part of ce10e91)"),
 ("M39", "SRC/dmemory.c", "\tGlu->stack.top2 = ((lwork - WorkSkip(work))/4)*4; /* must be word addressable */", "\tGlu->stack.top2 = (lwork/4)*4; /* must be word addressable */", ["C08", "C07"], "aligned workspace start not subtracted from its length: up to 7 bytes past the end for a 4-byte aligned work[]"),
 ("M40", "SRC/ilu_zpivotL.c", "                z_add(&lu_col_ptr[pivptr], &lu_col_ptr[pivptr], &temp);", "                z_add(&lu_col_ptr[pivptr], &lu_col_ptr[pivptr], &drop_sum);", ["C15"], "reverts 57340bb for type z"),
 ("M41", "SRC/dmemory.c", "    if ( Glu->MemModel == SYSTEM && fact != SamePattern_SameRowPerm ) {\n\tSUPERLU_FREE (Glu->xsup);", "    if ( Glu->MemModel == SYSTEM ) {\n\tSUPERLU_FREE (Glu->xsup);", ["C19", "C06"], "abandoned re-factorization frees the arrays the caller's L and U still own"),
]
M = [m for m in M if m[2] and m[3] is not None and not str(m[2]).startswith("placeholder") and m[2] != "static_placeholder"]


def sh(cmd, **kw):
    return subprocess.run(cmd, shell=isinstance(cmd, str), capture_output=True, text=True, **kw)


def main():
    only = None; baseline = False
    for i, a in enumerate(sys.argv):
        if a == "--only": only = set(sys.argv[i + 1].split(","))
        if a == "--baseline": baseline = True
    res = {}
    outp = os.path.join(VERIF, "mutants_results.json")
    if os.path.exists(outp):
        try: res = json.load(open(outp))
        except Exception: res = {}
    sh("git -C /repo worktree remove --force %s" % WT); shutil.rmtree(WT, ignore_errors=True)
    r = sh("git -C /repo worktree add --detach %s HEAD" % WT)
    if r.returncode: print(r.stderr); return 1
    shutil.copy("/repo/SRC/superlu_config.h", os.path.join(WT, "SRC/superlu_config.h"))
    try:
        for mid, f, old, new, props, note in M:
            if only and mid not in only: continue
            sh("git -C %s checkout -- ." % WT)
            p = os.path.join(WT, f); s = open(p).read()
            if s.count(old) != 1:
                print("%s: pattern occurs %d times in %s - skipped" % (mid, s.count(old), f)); res[mid] = dict(file=f, note=note, error="pattern count %d" % s.count(old)); continue
            open(p, "w").write(s.replace(old, new))
            entry = dict(file=f, note=note, checks={})
            if baseline:
                b = os.path.join(WT, "_build")
                if not os.path.exists(os.path.join(b, "build.ninja")):
                    sh("cmake -S %s -B %s -G Ninja -DCMAKE_BUILD_TYPE=Release" % (WT, b))
                rb = sh("cmake --build %s 2>&1 | tail -2 && ctest --test-dir %s -j8 2>&1 | tail -3" % (b, b))
                entry["baseline"] = "100% tests passed" in rb.stdout
                print("%s baseline suite: %s" % (mid, "passes" if entry["baseline"] else "FAILS / did not build"))
            for prop in props:
                t0 = time.time()
                env = dict(os.environ, VF_REPO=WT, VF_EVIDENCE_DIR="/tmp/vf_mut_ev", VF_REPLAYS_DIR="/tmp/vf_mut_ev/replays")
                rr = subprocess.run([os.path.join(VERIF, "check"), prop, "--tier", "quick"], capture_output=True, text=True, env=env, cwd=VERIF)
                caught = rr.returncode == 1 and "VIOLATION" in rr.stdout
                first = next((l.strip() for l in rr.stdout.splitlines() if l.strip().startswith("oracle=")), "")
                entry["checks"][prop] = dict(caught=caught, rc=rr.returncode, seconds=round(time.time() - t0, 1), first=first[:200])
                print("%s %-4s %s (%.0fs) %s" % (mid, prop, "CAUGHT" if caught else ("missed rc=%d" % rr.returncode), time.time() - t0, first[:120]), flush=True)
            res[mid] = entry
            json.dump(res, open(outp, "w"), indent=1)
    finally:
        sh("git -C /repo worktree remove --force %s" % WT); shutil.rmtree(WT, ignore_errors=True); shutil.rmtree("/tmp/vf_mut_ev", ignore_errors=True)
    return 0


if __name__ == "__main__":
    sys.exit(main())
