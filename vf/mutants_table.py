#!/usr/bin/env python3
"""Print the markdown table of DESIGN.md section 15.2 / 16.4 from mutants_results.json."""
import json, os, sys
VERIF = os.path.dirname(os.path.dirname(os.path.abspath(__file__)))
sys.path.insert(0, os.path.join(VERIF, "vf"))
import mutants
res = json.load(open(os.path.join(VERIF, "mutants_results.json")))
print("| id | file | mutation | baseline suite | caught by (seconds) | missed by |\n|---|---|---|---|---|---|")
caught = total = 0
for mid, f, old, new, props, note in mutants.M:
    e = res.get(mid)
    if not e or "checks" not in e:
        continue
    c = ", ".join("%s (%ds)" % (p, v["seconds"]) for p, v in e["checks"].items() if v["caught"]) or "-"
    m = ", ".join(p for p, v in e["checks"].items() if not v["caught"]) or "-"
    total += 1; caught += c != "-"
    print("| %s | `%s` | %s | %s | %s | %s |" % (mid, f, note, "passes" if e.get("baseline", True) else "fails", c, m))
print("\n%d of %d mutants caught by at least one of the named checks" % (caught, total))
