#!/usr/bin/env python3
"""Regenerate /verif/MANIFEST.json from vf/plans.py (single source of truth)."""
import json, os, sys
VERIF = os.path.dirname(os.path.dirname(os.path.abspath(__file__)))
sys.path.insert(0, VERIF)
from vf import plans

ALL = ["C%02d" % i for i in range(1, 21)]
checks = []
for p in plans.all_props():
    info = plans.INFO[p]
    checks.append({
        "property_id": p,
        "quick_cmd": "./check %s --tier quick" % p,
        "thorough_cmd": "./check %s --tier thorough" % p,
        "evidence_file": "/verif/evidence/%s.json" % p,
        "replay_cmd_template": "./check %s --replay {path}" % p,
        "engine": info.get("engine", "rapidcheck"),
        "level_claimed": {"category": info.get("level", "exploration"), "text": info["text"], "design_ref": info.get("design_ref", "DESIGN.md section 5, " + p)},
        "level_note": info["note"],
        "technique": info["technique"],
    })
na = [{"property_id": p, "reason": plans.NOT_APPLICABLE.get(p, "check not built yet in this session; planned in DESIGN.md section 5")} for p in ALL if p not in plans.all_props()]
m = {
    "version": 1,
    "setup_cmd": "./check --setup",
    "hooks": {
        "guard": "SLU_VERIF",
        "enable": "no source hook is needed: checks compile /repo/SRC, CBLAS and FORTRAN/c_fortran_*.c with clang -fsanitize=address,undefined and "
                  "-include harness/vf_hooks.h '-DUSER_MALLOC(size)=vf_malloc_at(size,__func__)' '-DUSER_FREE(p)=vf_free(p)' '-DUSER_ABORT(m)=vf_abort(m)' "
                  "(customisation points documented in SRC/slu_util.h) and link harness/tuning.c in place of SRC/sp_ienv.c (documented tuning interface); "
                  "-DXSDK_INDEX_SIZE=64 selects 64-bit indices",
        "baseline_off_cmd": "cmake --build /repo/_build && ctest --test-dir /repo/_build -j8 --timeout 900",
        "source_commits": [],
        "add_only": True,
    },
    "engines": [
        {"name": "rapidcheck", "path": "harness/main_rc.cpp", "serves_properties": plans.all_props(), "kind_free_text": "property-based testing: rapidcheck generates and shrinks a byte choice stream that a structured decoder turns into matrices, options, tunings and call histories; explicit oracle per property"},
        {"name": "libFuzzer", "path": "harness/main_fuzz.cpp", "serves_properties": [p for p in plans.all_props() if plans.plan_for(p, "thorough").get("fuzz")], "kind_free_text": "coverage-guided fuzzing (thorough tier): clang -fsanitize=fuzzer,address,undefined with -use_value_profile=1; the same byte stream, decoder and in-target oracle as the rapidcheck engine; crash artifacts are re-confirmed and minimised by the replay binary"},
    ],
    "checks": checks,
    "not_applicable": na,
    "notes": "See DESIGN.md. known_findings.json lists genuine defects (fixed by fix: commits in /repo or still open).",
}
with open(os.path.join(VERIF, "MANIFEST.json"), "w") as f:
    json.dump(m, f, indent=1)
print("MANIFEST.json: %d checks, %d not applicable" % (len(checks), len(na)))
