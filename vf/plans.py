"""Per-property search plans (bounds are case counts and generated sizes; the
budget only stops generation, it never decides anything)."""

MINIMISE_RUNS = 60

DEFAULT = {
    "quick": dict(configs=["asan"], types="sdcz", shards=4, cases=6000, max_size=600, budget=40, min_nontrivial=50, alarm=30),
    "thorough": dict(configs=["asan"], types="sdcz", shards=4, cases=60000, max_size=1500, budget=420, min_nontrivial=500, alarm=60),
}

FUZZ = dict(runs=400000, workers=16, max_len=1500, max_time=420)
VB = ["asan", "asan-vb"]
I64 = ["asan", "asan-i64"]
ALL3 = ["asan", "asan-vb", "asan-i64"]
OVERRIDE = {
    "C01": {"thorough": dict(configs=ALL3)}, "C02": {"thorough": dict(configs=ALL3, fuzz=FUZZ)}, "C03": {"thorough": dict(configs=ALL3, fuzz=FUZZ)},
    "C05": {"thorough": dict(configs=VB, fuzz=FUZZ)}, "C12": {"thorough": dict(configs=VB)}, "C13": {"thorough": dict(configs=VB, fuzz=FUZZ)}, "C14": {"thorough": dict(configs=VB, fuzz=FUZZ)},
    "C07": {"thorough": dict(configs=I64)}, "C17": {"thorough": dict(configs=I64)}, "C19": {"thorough": dict(configs=I64, fuzz=FUZZ)}, "C06": {"thorough": dict(configs=VB, fuzz=FUZZ)}, "C15": {"thorough": dict(configs=I64, fuzz=FUZZ)},
    "C16": {"thorough": dict(fuzz=FUZZ)},
    "C09": {"quick": dict(types="d", shards=6, configs=["tsan", "asan"], cases=1500, budget=45, alarm=120), "thorough": dict(types="d", shards=8, configs=["tsan", "asan"], cases=20000, budget=600)},
    "C08": {"quick": dict(cases=1500, budget=50, alarm=180), "thorough": dict(cases=20000, budget=600, configs=["asan", "asan-i64"], alarm=300)},
    "C10": {"quick": dict(types="d", shards=16), "thorough": dict(types="d", shards=8, configs=["asan", "asan-i64"], fuzz=FUZZ)},
    "C18": {"thorough": dict(fuzz=FUZZ)},
}

COMMON_ASSUME = [
    "long double reference arithmetic; rounding constants c=16 (real) / 32 (complex) in c*n*eps*|L||U| (DESIGN.md section 4)",
    "clang ASan+UBSan build of /repo's SRC, CBLAS and FORTRAN bridge; allocation ledger through USER_MALLOC/USER_FREE/USER_ABORT; replacement sp_ienv",
]
COMMON_NOTE = ("Trusted: the harness's dense long-double reference, the choice-stream decoder, clang's sanitizers. "
               "Exploration only: the property is shown to hold on the generated cases (counts in the evidence file), nothing is proved.")

INFO = {
    "C09": dict(level="exploration", assumptions=["schedules are sampled, not owned: the claim is 'no data race reported by ThreadSanitizer and bit-identical results over the sampled thread counts and start skews', not absence of races under all interleavings", "bundled (plain C) BLAS so that rounding does not depend on alignment or thread count"], note=COMMON_NOTE,
                technique="property-based testing (rapidcheck) of concurrent independent calls: differential digests (alone vs concurrent vs repeated after unrelated calls) in an ASan build and a ThreadSanitizer build whose race reports are violations",
                text="Generated mixes of drivers, factor/solve, ordering, ILU and MC64 calls run on 2..8 threads; outputs must be bit-identical to the same calls run alone and repeated, and ThreadSanitizer must stay silent."),
    "C15": dict(level="exploration", assumptions=COMMON_ASSUME, note=COMMON_NOTE,
                technique="property-based testing (rapidcheck): validity predicates on the returned ILU factors, the preconditioner-solve identity against the decoded factors, and the complete-LU oracles when dropping is disabled",
                text="Generated structurally nonsingular matrices (with zero diagonals and singular leading blocks) go through ?gsisx under every drop rule / MILU / row-permutation combination; the result is judged by predicates that any correct ILU must satisfy."),
    "C19": dict(level="exploration", assumptions=COMMON_ASSUME + ["uninitialised reads are detected by differential runs under three fill patterns (no usable MSan under a C++ harness); a read that changes neither an output nor control flow is not detected"], note=COMMON_NOTE,
                technique="property-based testing (rapidcheck) of API lifecycles under ASan+UBSan with an allocation ledger (leak / double free) and garbage-fill differential runs; coverage-guided libFuzzer campaign on the same target in the thorough tier",
                text="Generated lifecycles ending in every exit class run under sanitizers with every library allocation tracked; each lifecycle is repeated under three memory fill patterns and must produce bit-identical outputs."),
    "C06": dict(level="exploration", assumptions=COMMON_ASSUME + ["preconditions of each Fact value taken from the routine header and EXAMPLE/?linsolx{1,2,3}.c"], note=COMMON_NOTE,
                technique="stateful property-based testing (rapidcheck): generated call histories over one sparsity pattern with an invariant (C02 + C03 + C05 oracles, pivot-reuse rule, factor immutability under FACTORED) checked after every step; the whole history shrinks as one value",
                text="Whole histories over Fact in {DOFACT, SamePattern, SamePattern_SameRowPerm, FACTORED} are generated with value changes designed to defeat the remembered pivots; every step is held to the guarantees of a fresh factorization."),
    "C08": dict(level="fault_enumeration", assumptions=COMMON_ASSUME + ["a run longer than 10 s (normal: < 1 ms) counts as a hang and is confirmed by three replays in fresh processes"], note=COMMON_NOTE + " Workspace lengths and allocation-failure positions are enumerated completely for the sampled problems; the problems themselves are generated.",
                technique="property-based testing (rapidcheck) with an exhaustive inner enumeration of workspace lengths (every byte count, both alignments) and of allocation-failure positions, ASan-poisoned guard zones, fork isolation with a watchdog, differential against library allocation",
                text="For each generated problem every exhaustion point is a distinct fault: all workspace lengths up to beyond the requirement and all failure positions among the factor-growth requests are enumerated; the outcome must be a reported shortage or factors bit-identical to library allocation."),
    "C07": dict(level="exploration", assumptions=COMMON_ASSUME + ["bit-for-bit comparison only between runs of the same code on the same input with the bundled (plain C) BLAS"], note=COMMON_NOTE,
                technique="property-based testing (rapidcheck), differential: the same factorization under several fill estimates / library allocation / caller workspaces of different length and alignment must give bit-identical permutations and factors",
                text="Each generated problem is factored 3..8 times with different ways of obtaining factor storage; digests of everything returned are compared bit for bit, memory usage and expansion counts against the ledger."),
    "C20": dict(level="exploration", assumptions=COMMON_ASSUME + ["the bridge is plain C and is called from C with by-reference arguments exactly as a Fortran caller would; no Fortran compiler exists in the sandbox"], note=COMMON_NOTE,
                technique="stateful property-based testing (rapidcheck): generated factor/solve/free histories over three handles, differential (bit-for-bit) against the C simple driver plus the C01 residual oracle and ledger balance",
                text="Whole request histories are generated and shrunk as one value; after every request the invariants of the bridge are checked against the C driver run on the same matrix."),
    "C18": dict(level="exploration", assumptions=["argument positions read off the routine signatures and headers; ColPerm outside its enumeration is a documented ABORT, not an info return, and is not generated"], note=COMMON_NOTE,
                technique="property-based testing (rapidcheck) over a table of single-argument corruptions applied to a randomly generated valid call; exact info value, bit-exact snapshots, allocation-ledger balance",
                text="Every (routine, corruption) pair of the table is exercised many times per run on random valid base calls; the evidence lists the pairs covered. The space of corruptions is small and enumerated by the table; the base call is random."),
    "C16": dict(level="exploration", assumptions=["files are written by the harness's own encoder (C printf) with header fields padded to the full card width; Fortran syntax beyond (nIw), (n{E,D,F}w.d) and the (kPn{E,D}w.d) form named in the reader's comment is not generated", "stdin is re-pointed at an in-memory stream for the readers that read stdin"], note=COMMON_NOTE,
                technique="property-based testing (rapidcheck): write/read round trip with a structured file encoder (format descriptors, widths, case, symmetric storage, entry order) under ASan",
                text="A generated matrix and a generated encoding are written to an in-memory file and read back through each reader; dimensions, pattern and values must equal what was written, to the printed precision."),
    "C13": dict(level="exploration", assumptions=COMMON_ASSUME + ["backward error judged with tolerance 4(n+3)eps + 8 eps*berr; columns whose denominators fall below the library's safe2 guard are not judged"], note=COMMON_NOTE,
                technique="property-based testing (rapidcheck): long-double recomputation of the componentwise backward error of the returned X in the factored system; bit-exact differential against ?gstrs when refinement is off",
                text="Generated expert-driver calls with and without refinement; BERR is compared with an independently computed backward error of the very X that was returned, and the no-refinement contract is checked bit for bit."),
    "C12": dict(level="exploration", assumptions=COMMON_ASSUME + ["true condition number from long-double Gauss-Jordan inversion of the matrix as factored; lower bound judged only when c*n*eps*kappa*rho < 1/2"], note=COMMON_NOTE,
                technique="property-based testing (rapidcheck): differential against a long-double inverse for the one-sided estimator bound, exact threshold rule for info=n+1, recomputation of the growth factor from the returned factor arrays",
                text="Generated matrices over a wide range of condition numbers (and exactly singular ones for the growth clause) go through the expert driver and direct ?gscon calls in both norms; the estimate is bounded from both sides against the true value."),
    "C14": dict(level="exploration", assumptions=COMMON_ASSUME + ["the diag flag of sp_?trsv is advisory for an (L,U) pair: the two unnatural spellings are judged for memory safety only"], note=COMMON_NOTE,
                technique="property-based testing (rapidcheck): dense long-double reference for products and triangular systems with componentwise backward-error predicates, guard elements, bit-exact snapshots of inputs",
                text="Generated factor pairs and rectangular matrices drive sp_?trsv (12 flag combinations), sp_?gemv/sp_?gemm (all documented spellings, alpha/beta, strides) and ?gstrs (nrhs, ldb, Trans); outputs are compared with a dense reference."),
    "C17": dict(level="exploration", assumptions=["optimality decided through LP duality (dual feasibility + complementary slackness) in the log domain with tolerance 64*n*eps*(1+max|log|)", "brute force over all permutations for n <= 7"], note=COMMON_NOTE,
                technique="property-based testing (rapidcheck): LP-duality certificate check of the returned matching and scalings, brute-force differential for small n, reference bipartite matching for structural singularity",
                text="Generated square matrices with wide magnitude ranges, ties and zero diagonals go through ?ldperm(job 5); the returned permutation and scalings are validated as an optimality certificate and against brute force."),
    "C11": dict(level="exploration", assumptions=["long double reference maxima; ratios judged only when every maximum lies inside [safmin, 1/safmin]; column stage not judged when a scaled maximum underflows in working precision"], note=COMMON_NOTE,
                technique="property-based testing (rapidcheck) against a long-double reference implementation of the equilibration definition over the whole floating-point range",
                text="Generated m x n matrices with entries from subnormal to near-overflow magnitudes are equilibrated; factors, ratios, error positions and the application rule are compared with a reference computed from the definition."),
    "C10": dict(level="exploration", assumptions=["reference elimination tree computed by definition on dense boolean matrices (n <= 60)"] + COMMON_ASSUME[1:], note=COMMON_NOTE,
                technique="property-based testing (rapidcheck): differential against a by-definition column elimination tree, metamorphic pattern-only dependence of the ordering, postorder validity predicate",
                text="Generated m x n patterns go through get_perm_c and sp_preorder for every ordering method; the etree is compared exactly with an independent reference and the postorder / view / permutation clauses are validity predicates."),
    "C04": dict(level="exploration", assumptions=COMMON_ASSUME + ["structurally singular inputs run in a forked child with zero-filled fresh blocks while finding F-SS is open"], note=COMMON_NOTE,
                technique="property-based testing (rapidcheck): generated structurally singular / exactly cancelling matrices; reference structural rank by augmenting paths, bounds-checked decoding of the leading block, exact 128-bit rank for small integers",
                text="Singular inputs of every kind are generated and the return value, the leading factorization, the zero candidates and the untouched right-hand side are checked against reference computations; exploration is the right level because the property quantifies over all positions and numbers of deficient columns."),
    "C03": dict(level="exploration", assumptions=COMMON_ASSUME, note=COMMON_NOTE,
                technique="property-based testing (rapidcheck) with a validity predicate over the returned SCformat/NCformat structures, ASan addressability of the implied lengths",
                text="Generated factorizations (complete through ?gstrf/?gssvx, incomplete through ?gsisx) under extreme tunings are checked against a structural validity predicate; many correct outputs exist, so a predicate rather than an expected value is the oracle."),
    "C05": dict(level="exploration", assumptions=COMMON_ASSUME, note=COMMON_NOTE,
                technique="property-based testing (rapidcheck): residual oracle mapped through the equilibration scalings, bit-exact snapshots of A's index arrays and of B's single documented scaling",
                text="Generated expert-driver calls over Trans x Equil x IterRefine x storage x ordering x tuning x 4 types; X is checked against op(A)X=B for the caller's original data with the factor-derived bound, and the mutation of A and B is compared with the documented contract."),
    "C01": dict(level="exploration", assumptions=COMMON_ASSUME, note=COMMON_NOTE,
                technique="property-based testing (rapidcheck) with a componentwise residual oracle derived from the returned factors",
                text="Generated square systems in both storage orientations, all orderings/thresholds/tunings and 4 arithmetic types are solved by the simple driver; every returned X is checked against the componentwise bound c*n*eps*(|L||U| permuted back)|X| + n*eps*|B| computed in long double."),
    "C02": dict(level="exploration", assumptions=COMMON_ASSUME, note=COMMON_NOTE,
                technique="property-based testing (rapidcheck) with a dense long-double reconstruction oracle |Pr*A*Pc-L*U| <= c*n*eps*|L||U| plus pivot-rule predicates",
                text="Generated m x n matrices (15 pattern x 7 value families, all orderings, thresholds, tunings, 4 types) are factored and the returned factors are checked entrywise against the definition; exploration is the right level because the property quantifies over an unbounded input space with a cheap exact oracle."),
}

NOT_APPLICABLE = {}

PROPS = ["C01", "C02", "C03", "C04", "C05", "C06", "C07", "C08", "C09", "C10", "C11", "C12", "C13", "C14", "C15", "C16", "C17", "C18", "C19", "C20"]


def all_props():
    return list(PROPS)


def setup_configs():
    return ["asan", "tsan"]


def plan_for(prop, tier):
    import os
    p = dict(DEFAULT[tier])
    p.update(OVERRIDE.get(prop, {}).get(tier, {}))
    # VF_BUDGET_SCALE (e.g. 0.25) shortens exploratory runs; registered commands never set it
    sc = float(os.environ.get("VF_BUDGET_SCALE", "1") or 1)
    if sc != 1 and p.get("fuzz"):
        f = dict(p["fuzz"]); f["runs"] = max(1000, int(f["runs"] * sc)); f["max_time"] = max(20, int(f["max_time"] * sc)); p["fuzz"] = f
    if sc != 1:
        p["cases"] = max(100, int(p["cases"] * sc)); p["budget"] = max(5, int(p["budget"] * sc)); p["min_nontrivial"] = max(2, int(p["min_nontrivial"] * sc))
    return p
