"""Per-property search plans (bounds are case counts and generated sizes; the
budget only stops generation, it never decides anything)."""

MINIMISE_RUNS = 150

DEFAULT = {
    "quick": dict(configs=["asan"], types="sdcz", shards=4, cases=3000, max_size=600, budget=40, min_nontrivial=50, alarm=120),
    "thorough": dict(configs=["asan", "asan-vb", "asan-i64"], types="sdcz", shards=4, cases=40000, max_size=1500, budget=420, min_nontrivial=500, alarm=300),
}

OVERRIDE = {
}

INFO = {
    "C02": dict(level="exploration", assumptions=[
        "rounding constants c=16 (real) / 32 (complex) in c*n*eps*|L||U| (DESIGN.md section 4)",
        "long double reference arithmetic", "ASan+UBSan clang build of /repo's SRC, CBLAS; ledger via USER_MALLOC/USER_FREE"]),
}

PROPS = ["C02"]


def all_props():
    return list(PROPS)


def setup_configs():
    return ["asan"]


def plan_for(prop, tier):
    p = dict(DEFAULT[tier])
    p.update(OVERRIDE.get(prop, {}).get(tier, {}))
    return p
