/* Known finding F-MC64, further manifestation: dldperm(job 5) returns 0 with a bijection whose diagonal holds an entry that is
   not stored (row 7 -> column 6).  argv[1] = relative perturbation that breaks the ties (e.g. 4e-6): the result is then correct.
   Build: gcc -I<repo>/SRC mc64_ties_zero_diag_demo.c <repo>/SRC/*.c <repo>/CBLAS/*.c -lm */
#include "slu_ddefs.h"
/* magnitudes |re|+|im| of the 10x10 single-complex witness */
static int N=10;
static int PTR[]={0,7,15,23,31,38,47,54,59,63,67};
static int IDX[]={0,1,2,3,4,5,6, 0,1,2,3,4,5,6,9, 0,1,2,3,4,5,6,7, 0,1,2,3,4,5,6,8, 0,1,2,3,4,5,6, 0,1,2,3,4,5,6,7,9, 0,1,2,3,4,5,6, 1,4,7,8,9, 5,7,8,9, 2,7,8,9};
static double VAL[]={2,2,6,2,2,2,4, 2,6,4,2,2,4,2,4, 6,2,2,4,4,2,2,6, 4,2,4,4,2,4,2,2, 6,2,2,4,6,6,6, 4,4,4,4,4,2,2,2,2, 2,2,2,2,2,2,2, 2,2,2,2,2, 2,2,2,2, 2,2,2,2};
int main(int argc,char**argv){ int n=N; int_t nnz=PTR[N]; int_t *cp=intMalloc(n+1),*ri=intMalloc(nnz); double *a=doubleMalloc(nnz);
 double eps = argc>1 ? atof(argv[1]) : 0;
 for(int i=0;i<=n;i++)cp[i]=PTR[i]; for(int i=0;i<nnz;i++){ri[i]=IDX[i];a[i]=VAL[i]*(1+eps*i);}
 int *perm=int32Malloc(n); double *u=doubleMalloc(n),*v=doubleMalloc(n);
 int r=dldperm(5,n,nnz,cp,ri,a,perm,u,v); printf("ret=%d perm:",r); for(int i=0;i<n;i++)printf(" %d",perm[i]); printf("\n");
 int bad=0; for(int i=0;i<n;i++){int j=perm[i],f=0; if(j<0||j>=n){bad++;continue;} for(int p=PTR[j];p<PTR[j+1];p++) if(IDX[p]==i) f=1; if(!f){printf("row %d -> col %d: not stored\n",i,j);bad++;}} return bad!=0;}
