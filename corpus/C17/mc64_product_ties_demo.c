/* Known finding F-MC64, tie of products (no two entries of equal magnitude): dldperm(job 5) returns 0 with scalings that
   are not dual feasible: |a(2,1)| * exp(u[2]+v[1]) = 1.5.  The magnitudes are 1..3 times powers of two, so the products of
   different partial matchings tie exactly (e.g. a(2,0)a(3,2) = a(2,2)a(3,0) = 2^47).  argv[1] = relative perturbation that
   breaks the ties (e.g. 4e-6): the scalings are then feasible.
   Build: gcc -I<repo>/SRC mc64_product_ties_demo.c <repo>/SRC/*.c <repo>/CBLAS/*.c -lm */
#include "slu_ddefs.h"
static int N=5;
static int PTR[]={0,4,8,13,17,19};
static int IDX[]={0,1,2,3, 0,1,2,3, 0,1,2,3,4, 0,1,2,3, 2,4};
static double VAL[]={1024,274877906944.,67108864,268435456, 0.375,33554432,12288,16384, 24,1073741824,524288,2097152,512, 0.0009765625,196608,16,64, 131072,128};
int main(int argc,char**argv){ int n=N; int_t nnz=PTR[N]; int_t *cp=intMalloc(n+1),*ri=intMalloc(nnz); double *a=doubleMalloc(nnz);
 double eps = argc>1 ? atof(argv[1]) : 0;
 for(int i=0;i<=n;i++)cp[i]=PTR[i]; for(int i=0;i<nnz;i++){ri[i]=IDX[i];a[i]=VAL[i]*(1+eps*i);}
 int *perm=int32Malloc(n); double *u=doubleMalloc(n),*v=doubleMalloc(n);
 int r=dldperm(5,n,nnz,cp,ri,a,perm,u,v); printf("ret=%d perm:",r); for(int i=0;i<n;i++)printf(" %d",perm[i]); printf("\n");
 int bad=0; for(int j=0;j<n;j++) for(int p=PTR[j];p<PTR[j+1];p++){ int i=IDX[p]; double s=VAL[p]*(1+eps*p)*exp(u[i]+v[j]); if(s>1+1e-9){printf("scaled |a(%d,%d)| = %.6g > 1\n",i,j,s);bad++;} if(perm[i]==j && fabs(s-1)>1e-9){printf("scaled diagonal a(%d,%d) = %.6g\n",i,j,s);bad++;} }
 printf(bad?"VIOLATED\n":"holds\n"); return bad!=0;}
